// Package c32 checks property C32: per-peer debt tracking in pkg/accounting is
// exact and race-free.
//
// The unpaid balance of a peer is not exported. It is observed through the
// reservation check, which the code documents as "available balance <
// unpaid + requested  =>  ErrLowAvailableExceeded": with the settlement stub's
// available balance set to X, Reserve(peer, 0) succeeds iff unpaid <= X. Two
// probes (X = expected, X = expected-1) pin the balance exactly.
package c32

import (
	"context"
	"encoding/json"
	"fmt"
	"io"
	"math/big"
	"os"
	"path/filepath"
	"runtime/debug"
	"sync"
	"testing"
	"time"

	"github.com/gauss-project/aurorafs/pkg/accounting"
	"github.com/gauss-project/aurorafs/pkg/boson"
	"github.com/gauss-project/aurorafs/pkg/logging"
	"github.com/gauss-project/aurorafs/pkg/statestore/mock"
	"pgregory.net/rapid"
	"verifharness/internal/evid"
)

const (
	id             = "C32"
	sigReserveRace = "C32/reserve-unlocked-read"
	sentinelCap    = 30 * time.Second
)

// ---- case values ------------------------------------------------------------

// op is one accounting call. Operands are resolved at interpretation time:
// with Rel the amount is derived from the model so that the balance lands D
// away from the interesting boundary; otherwise A is used literally.
type op struct {
	K   string `json:"k"` // credit | notify | reserve | debit | settle
	P   int    `json:"p"`
	Rel bool   `json:"rel,omitempty"`
	D   int64  `json:"d,omitempty"`
	A   uint64 `json:"a,omitempty"`
}

type seqCase struct {
	Threshold     uint64   `json:"threshold"`
	Tolerance     uint64   `json:"tolerance"`
	Init          []uint64 `json:"init_unpaid"`    // what settlement.RetrieveTraffic answers at first touch
	InitUnsettled []uint64 `json:"init_unsettled"` // served traffic the peer has not settled yet
	Ops           []op     `json:"ops"`
}

type cpeer struct {
	Init          uint64   `json:"init_unpaid"`
	Pre           []uint64 `json:"pre_credits"`
	InitUnsettled uint64   `json:"init_unsettled"`
}

type conCase struct {
	Regime      int     `json:"regime"` // 0: every credit crosses, 1: none crosses, 2: mixed
	Threshold   uint64  `json:"threshold"`
	Tolerance   uint64  `json:"tolerance"`
	Peers       []cpeer `json:"peers"`
	PayNotifies bool    `json:"pay_notifies"` // settlement stub notifies a payment from inside Pay (as traffic.issue does)
	StubPay     uint64  `json:"stub_pay"`
	G           [][]op  `json:"goroutines"`
}

func bu(x uint64) *big.Int { return new(big.Int).SetUint64(x) }
func bi(x int64) *big.Int  { return big.NewInt(x) }
func add(a, b *big.Int) *big.Int {
	return new(big.Int).Add(a, b)
}
func sub(a, b *big.Int) *big.Int {
	return new(big.Int).Sub(a, b)
}
func max0(a *big.Int) *big.Int {
	if a.Sign() < 0 {
		return big.NewInt(0)
	}
	return new(big.Int).Set(a)
}

func peerAddr(i int) boson.Address {
	b := make([]byte, 32)
	b[0] = byte(i + 1)
	b[31] = 0x32
	return boson.NewAddress(b)
}

func sentinelAddr() boson.Address {
	b := make([]byte, 32)
	for i := range b {
		b[i] = 0xee
	}
	return boson.NewAddress(b)
}

type env struct {
	acc   *accounting.Accounting
	st    *stub
	peers []boson.Address
	thr   *big.Int
	tol   *big.Int
}

func newEnv(thr, tol *big.Int, init, initUnsettled []uint64) *env {
	st := newStub(thr, tol)
	e := &env{st: st, thr: thr, tol: tol}
	for i := range init {
		a := peerAddr(i)
		e.peers = append(e.peers, a)
		st.retrieve[a.String()] = bu(init[i])
		st.transfer[a.String()] = bu(initUnsettled[i])
	}
	e.acc = accounting.NewAccounting(tol, thr, logging.New(io.Discard, 0), mock.NewStateStore(), st)
	return e
}

// probe pins the unpaid balance of peer p into [lo, hi] through the reservation check.
func (e *env) probe(p int, lo, hi *big.Int, when string) (string, error) {
	e.st.setAvail(hi)
	if err := e.acc.Reserve(e.peers[p], 0); err != nil {
		return "C32/unpaid-too-high", fmt.Errorf("%s: peer %d: Reserve(0) with available=%v refused (%v): unpaid balance is above the expected %v", when, p, hi, err, hi)
	}
	e.st.setAvail(sub(lo, bi(1)))
	if err := e.acc.Reserve(e.peers[p], 0); err == nil {
		if lo.Sign() == 0 {
			return "C32/unpaid-negative", fmt.Errorf("%s: peer %d: Reserve(0) with available=-1 accepted: unpaid balance is negative", when, p)
		}
		return "C32/unpaid-too-low", fmt.Errorf("%s: peer %d: Reserve(0) with available=%v accepted: unpaid balance is below the expected %v", when, p, sub(lo, bi(1)), lo)
	}
	return "", nil
}

// flush makes a sentinel credit on a fresh peer cross the threshold and waits until
// the stub has seen its Pay: the pay channel is FIFO and drained by one goroutine,
// so every earlier request has been handled by then.
func (e *env) flush() (string, error) {
	s := sentinelAddr()
	e.st.mu.Lock()
	e.st.sentinel = s.String()
	e.st.sentinelOn = true
	e.st.mu.Unlock()
	// clearly above the threshold: the sentinel is a barrier, not a boundary test
	amt := add(add(e.thr, e.thr), bi(1))
	if err := e.acc.Credit(context.Background(), s, amt.Uint64()); err != nil {
		return "C32/op-error", fmt.Errorf("sentinel credit: %v", err)
	}
	select {
	case <-e.st.sentinelCh:
		return "", nil
	case <-time.After(sentinelCap):
		return "C32/pay-not-requested", fmt.Errorf("sentinel credit of %v (threshold %v) on a fresh peer: no Pay seen by the settlement stub within %v", amt, e.thr, sentinelCap)
	}
}

type stats struct {
	crossings, refused, overpay, ambiguous, exactThr int
	conPeers                                          int
	classes                                           []string
}

// ---- sequential histories -----------------------------------------------------

func runSeq(c seqCase) (st stats, sig string, err error) {
	defer func() {
		if r := recover(); r != nil {
			sig, err = "C32/panic", fmt.Errorf("panic: %v\n%s", r, debug.Stack())
		}
	}()
	thr, tol := bu(c.Threshold), bu(c.Tolerance)
	e := newEnv(thr, tol, c.Init, c.InitUnsettled)
	n := len(c.Init)
	// hi: balance clamped at every payment; raw: Σcredits-Σpayments (its clamp
	// is the other reading of the statement); they differ only after an overpayment.
	hi := make([]*big.Int, n)
	raw := make([]*big.Int, n)
	required := make([]int, n)
	optional := make([]int, n)
	for i := range hi {
		hi[i] = bu(c.Init[i])
		raw[i] = bu(c.Init[i])
	}
	ctx := context.Background()
	for k, o := range c.Ops {
		p := o.P % n
		peer := e.peers[p]
		when := fmt.Sprintf("op#%d %s(peer %d)", k, o.K, p)
		switch o.K {
		case "credit":
			a := o.A
			if o.Rel {
				want := add(thr, bi(o.D))
				if d := sub(want, hi[p]); d.Sign() > 0 && d.IsUint64() {
					a = d.Uint64()
				}
			}
			if err := e.acc.Credit(ctx, peer, a); err != nil {
				return st, "C32/op-error", fmt.Errorf("%s amount %d: %v", when, a, err)
			}
			hi[p] = add(hi[p], bu(a))
			raw[p] = add(raw[p], bu(a))
			lo := max0(raw[p])
			switch {
			case lo.Cmp(thr) >= 0:
				required[p]++
				st.crossings++
				if hi[p].Cmp(thr) == 0 {
					st.exactThr++
				}
			case hi[p].Cmp(thr) >= 0:
				optional[p]++ // the two readings disagree: not asserted
				st.ambiguous++
			}
		case "notify":
			x := bu(o.A)
			if o.Rel {
				x = max0(add(hi[p], bi(o.D)))
			}
			if err := e.acc.NotifyPayment(peer, x); err != nil {
				return st, "C32/op-error", fmt.Errorf("%s amount %v: %v", when, x, err)
			}
			if x.Cmp(hi[p]) > 0 {
				st.overpay++
			}
			hi[p] = max0(sub(hi[p], x))
			raw[p] = sub(raw[p], x)
		case "reserve":
			t := bu(o.A)
			avail := add(add(hi[p], t), bi(o.D))
			e.st.setAvail(avail)
			err := e.acc.Reserve(peer, o.A)
			lo := max0(raw[p])
			if avail.Cmp(add(hi[p], t)) >= 0 && err != nil {
				return st, "C32/reserve-result", fmt.Errorf("%s traffic %d available %v unpaid %v: refused (%v)", when, o.A, avail, hi[p], err)
			}
			if avail.Cmp(add(lo, t)) < 0 && err == nil {
				return st, "C32/reserve-result", fmt.Errorf("%s traffic %d available %v unpaid %v: accepted", when, o.A, avail, lo)
			}
		case "debit":
			u := e.st.unsettled(peer)
			a := o.A
			if o.Rel {
				if d := sub(add(tol, bi(o.D)), u); d.Sign() > 0 && d.IsUint64() {
					a = d.Uint64()
				}
			}
			e.st.mu.Lock()
			nBefore := e.st.putTraN[peer.String()]
			sumBefore := new(big.Int).Set(get(e.st.putTraSum, peer.String()))
			e.st.mu.Unlock()
			err := e.acc.Debit(peer, a)
			e.st.mu.Lock()
			nAfter := e.st.putTraN[peer.String()]
			sumAfter := new(big.Int).Set(get(e.st.putTraSum, peer.String()))
			e.st.mu.Unlock()
			if u.Cmp(tol) >= 0 {
				st.refused++
				if err == nil {
					return st, "C32/debit-not-refused", fmt.Errorf("%s amount %d: unsettled %v >= tolerance %v but Debit succeeded", when, a, u, tol)
				}
				if nAfter != nBefore {
					return st, "C32/debit-refused-but-recorded", fmt.Errorf("%s amount %d: refused (%v) but PutTransferTraffic was called", when, a, err)
				}
			} else {
				if err != nil {
					return st, "C32/debit-wrongly-refused", fmt.Errorf("%s amount %d: unsettled %v < tolerance %v but Debit failed: %v", when, a, u, tol, err)
				}
				if nAfter != nBefore+1 || sub(sumAfter, sumBefore).Cmp(bu(a)) != 0 {
					return st, "C32/debit-not-recorded", fmt.Errorf("%s amount %d: accepted but PutTransferTraffic calls %d->%d sum %v->%v", when, a, nBefore, nAfter, sumBefore, sumAfter)
				}
			}
		case "settle":
			u := e.st.unsettled(peer)
			x := bu(o.A)
			if o.Rel {
				x = max0(add(u, bi(o.D)))
			}
			if x.Cmp(u) > 0 {
				x = u
			}
			e.st.mu.Lock()
			e.st.settled[peer.String()] = add(get(e.st.settled, peer.String()), x)
			e.st.mu.Unlock()
		}
		if s, err := e.probe(p, max0(raw[p]), hi[p], "after "+when); err != nil {
			return st, s, err
		}
	}
	if s, err := e.flush(); err != nil {
		return st, s, err
	}
	for p := 0; p < n; p++ {
		if s, err := e.probe(p, max0(raw[p]), hi[p], "at end"); err != nil {
			return st, s, err
		}
	}
	e.st.mu.Lock()
	defer e.st.mu.Unlock()
	if len(e.st.badPay) > 0 {
		return st, "C32/pay-args", fmt.Errorf("Pay called with a threshold other than %v: %v", thr, e.st.badPay)
	}
	total := 0
	for p := 0; p < n; p++ {
		got := e.st.pays[e.peers[p].String()]
		total += got
		if got < required[p] {
			return st, "C32/pay-missing", fmt.Errorf("peer %d: %d credits left unpaid >= threshold %v but Pay was requested %d times", p, required[p], thr, got)
		}
		if got > required[p]+optional[p] {
			return st, "C32/pay-spurious", fmt.Errorf("peer %d: %d credits left unpaid >= threshold %v (+%d not asserted) but Pay was requested %d times", p, required[p], thr, optional[p], got)
		}
	}
	if len(e.st.payOrder) != total+1 {
		return st, "C32/pay-spurious", fmt.Errorf("Pay requested for peers outside the history: %v", e.st.payOrder)
	}
	return st, "", nil
}

func amount(t *rapid.T, thr uint64, label string) uint64 {
	return rapid.OneOf(
		rapid.Just(uint64(256)),
		rapid.Uint64Range(0, 3),
		rapid.Uint64Range(1, 2*thr+2),
		rapid.SampledFrom([]uint64{thr - 1, thr, thr + 1, 1 << 40, 1<<63 - 1, 1<<64 - 1}),
	).Draw(t, label)
}

func genSeq(t *rapid.T) seqCase {
	var c seqCase
	c.Threshold = rapid.OneOf(rapid.SampledFrom([]uint64{1, 2, 256, 4096}), rapid.Uint64Range(1, 10000)).Draw(t, "threshold")
	c.Tolerance = rapid.OneOf(rapid.SampledFrom([]uint64{1, c.Threshold, 64 * c.Threshold}), rapid.Uint64Range(1, 100000)).Draw(t, "tolerance")
	n := rapid.IntRange(1, 3).Draw(t, "peers")
	for i := 0; i < n; i++ {
		c.Init = append(c.Init, rapid.OneOf(rapid.Just(uint64(0)), rapid.SampledFrom([]uint64{c.Threshold - 1, c.Threshold, c.Threshold + 1}), rapid.Uint64Range(0, 2*c.Threshold)).Draw(t, "init"))
		c.InitUnsettled = append(c.InitUnsettled, rapid.OneOf(rapid.Just(uint64(0)), rapid.SampledFrom([]uint64{c.Tolerance - 1, c.Tolerance, c.Tolerance + 1}), rapid.Uint64Range(0, 2*c.Tolerance)).Draw(t, "unsettled"))
	}
	nops := rapid.IntRange(1, 30).Draw(t, "nops")
	kinds := []string{"credit", "credit", "credit", "credit", "credit", "notify", "notify", "notify", "reserve", "reserve", "debit", "debit", "debit", "settle"}
	for i := 0; i < nops; i++ {
		o := op{K: rapid.SampledFrom(kinds).Draw(t, "kind"), P: rapid.IntRange(0, n-1).Draw(t, "peer")}
		o.Rel = rapid.IntRange(0, 9).Draw(t, "rel") < 6
		o.D = rapid.OneOf(rapid.Int64Range(-2, 2), rapid.Int64Range(-300, 300)).Draw(t, "d")
		switch o.K {
		case "credit":
			o.A = amount(t, c.Threshold, "a")
		case "notify":
			// mostly payments of plausible size: a huge overpayment leaves the two readings of the
			// statement far apart for the rest of the history (fewer exact assertions)
			if rapid.IntRange(0, 7).Draw(t, "huge") == 0 {
				o.A = amount(t, c.Threshold, "a")
			} else {
				o.A = rapid.OneOf(rapid.Just(uint64(256)), rapid.Uint64Range(0, 3), rapid.Uint64Range(1, c.Threshold+1)).Draw(t, "a")
				if o.Rel && o.D > 0 && rapid.IntRange(0, 2).Draw(t, "nooverpay") > 0 {
					o.D = -o.D
				}
			}
		case "reserve":
			o.Rel = true
			o.A = amount(t, c.Threshold, "a")
		case "debit", "settle":
			o.A = amount(t, c.Tolerance, "a")
		}
		c.Ops = append(c.Ops, o)
	}
	return c
}

func recordSeq(r *evid.Rec, c seqCase, st stats) {
	cls := []string{"seq"}
	if st.crossings > 0 {
		cls = append(cls, "seq:threshold-crossing")
	}
	if st.exactThr > 0 {
		cls = append(cls, "seq:unpaid==threshold-after-credit")
	}
	if st.refused > 0 {
		cls = append(cls, "seq:debit-refused")
	}
	if st.overpay > 0 {
		cls = append(cls, "seq:overpayment-clamped")
	}
	if st.ambiguous > 0 {
		cls = append(cls, "seq:crossing-not-asserted-after-overpayment")
	}
	if len(c.Init) > 1 {
		cls = append(cls, "seq:several-peers")
	}
	r.Case(evid.Hash64("seq", c), st.crossings > 0 || st.refused > 0, cls...)
	r.Sample(map[string]interface{}{"kind": "seq", "case": c})
}

const ruleSeq = "sequential: rapid draws threshold/tolerance (1, 2, 256, 4096 (=node default), random), 1-3 peers with initial unpaid/unsettled amounts around the boundaries, and 1-30 ops Credit/NotifyPayment/Reserve/Debit/settle-by-peer whose amounts are literal (0..3, 256, around threshold, 2^40, 2^63-1, 2^64-1) or resolved against the model to land -300..+300 around the threshold/tolerance/current balance; after every op the unpaid balance is pinned exactly by two Reserve(0) probes; Pay requests counted per peer after a FIFO sentinel; non-trivial = history with a threshold crossing or a refused debit; distinct by hash of the case"

func TestC32_Sequential(t *testing.T) {
	r := evid.Get(id)
	evid.Finish(t, r)
	r.SetRule(ruleSeq)
	if replayOnly(t, r) {
		return
	}
	// deterministic boundary cases (C32_SKIP_FIXED=1 is used only in sensitivity runs, to see
	// whether the generated cases alone find a mutant)
	fixed := []seqCase{
		{Threshold: 4096, Tolerance: 262144, Init: []uint64{0}, InitUnsettled: []uint64{0}, Ops: []op{
			{K: "credit", A: 4095}, {K: "credit", A: 1}, {K: "credit", A: 0}, {K: "notify", A: 4096}, {K: "credit", A: 256}}},
		{Threshold: 10, Tolerance: 5, Init: []uint64{9}, InitUnsettled: []uint64{4}, Ops: []op{
			{K: "debit", A: 1}, {K: "debit", A: 1}, {K: "settle", A: 1}, {K: "debit", A: 7}, {K: "debit", A: 1},
			{K: "notify", A: 100}, {K: "credit", A: 10}, {K: "notify", A: 10}, {K: "notify", A: 1}}},
	}
	if os.Getenv("C32_SKIP_FIXED") == "1" {
		fixed = nil
	}
	for _, c := range fixed {
		st, sig, err := runSeq(c)
		if err != nil {
			fail(t, sig, err, "seq", c)
		}
		recordSeq(r, c, st)
	}
	evid.Checks(7500)
	rapid.Check(t, func(t *rapid.T) {
		c := genSeq(t)
		st, sig, err := runSeq(c)
		if err != nil {
			failR(t, sig, err, "seq", c)
		}
		recordSeq(r, c, st)
	})
}

// ---- concurrent programs --------------------------------------------------------

type opResult struct {
	err  error
	amt  uint64 // resolved amount
	sure int    // reserve: +1 must succeed, -1 must fail, 0 not asserted
}

func runCon(c conCase, excludeReserve bool) (st stats, sig string, err error) {
	defer func() {
		if r := recover(); r != nil {
			sig, err = "C32/panic", fmt.Errorf("panic: %v\n%s", r, debug.Stack())
		}
	}()
	n := len(c.Peers)
	np := n
	if excludeReserve {
		np = n + 1 // extra peer that only ever sees Reserve/Debit in the concurrent phase
	}
	init := make([]uint64, np)
	initU := make([]uint64, np)
	budget := make([]*big.Int, np)
	for i := 0; i < np; i++ {
		if i < n {
			init[i], initU[i] = c.Peers[i].Init, c.Peers[i].InitUnsettled
		} else {
			init[i] = 1000
		}
		budget[i] = bu(init[i])
		if i < n {
			for _, a := range c.Peers[i].Pre {
				budget[i] = add(budget[i], bu(a))
			}
		}
	}
	// resolve payment amounts in program order so that Σpayments <= budget per peer
	res := make([][]opResult, len(c.G))
	rem := make([]*big.Int, np)
	sumPay := make([]*big.Int, np)
	sumCred := make([]*big.Int, np)
	nCred := make([]int, np)
	users := make([]map[int]bool, np)
	for i := range rem {
		rem[i] = new(big.Int).Set(budget[i])
		sumPay[i], sumCred[i] = bi(0), bi(0)
		users[i] = map[int]bool{}
	}
	target := func(o op) int {
		if o.K == "reserve" && excludeReserve {
			return n
		}
		return o.P % n
	}
	for g, ops := range c.G {
		res[g] = make([]opResult, len(ops))
		for i, o := range ops {
			p := target(o)
			switch o.K {
			case "notify":
				a := bu(o.A)
				if a.Cmp(rem[p]) > 0 {
					a = new(big.Int).Set(rem[p])
				}
				rem[p] = sub(rem[p], a)
				sumPay[p] = add(sumPay[p], a)
				res[g][i].amt = a.Uint64()
				users[p][g] = true
			case "credit":
				res[g][i].amt = o.A
				sumCred[p] = add(sumCred[p], bu(o.A))
				nCred[p]++
				users[p][g] = true
			default:
				res[g][i].amt = o.A
			}
		}
	}
	for p := 0; p < n; p++ {
		if len(users[p]) >= 2 {
			st.conPeers++
		}
	}
	// threshold by regime
	regime := c.Regime
	var thr *big.Int
	if regime == 0 {
		var m *big.Int
		for p := 0; p < n; p++ {
			if m == nil || rem[p].Cmp(m) < 0 {
				m = rem[p]
			}
		}
		if m.Sign() <= 0 {
			regime = 2
		} else {
			thr = add(bi(1), new(big.Int).Mod(bu(c.Threshold), m))
		}
	}
	if regime == 1 {
		m := bi(0)
		for p := 0; p < np; p++ {
			if v := add(budget[p], sumCred[p]); v.Cmp(m) > 0 {
				m = v
			}
		}
		thr = add(m, bu(1+c.Threshold%1000))
	}
	if regime == 2 {
		thr = bu(c.Threshold)
		if thr.Sign() == 0 {
			thr = bi(1)
		}
	}
	allowance := make([]*big.Int, np)
	for p := 0; p < np; p++ {
		allowance[p] = bi(0)
		if c.PayNotifies && p < n {
			allowance[p] = new(big.Int).Set(rem[p])
			if regime == 0 {
				allowance[p] = sub(rem[p], thr) // >= 0 because thr <= min rem
			}
		}
	}
	tol := bu(c.Tolerance)
	e := newEnv(thr, tol, init, initU)
	e.st.payAmount = bu(c.StubPay)
	for p := 0; p < n; p++ {
		e.st.allowance[e.peers[p].String()] = new(big.Int).Set(allowance[p])
	}
	e.st.SetNotifyPaymentFunc(e.acc.NotifyPayment)

	minUnpaid := make([]*big.Int, np)
	maxUnpaid := make([]*big.Int, np)
	avail := bi(0)
	for p := 0; p < np; p++ {
		minUnpaid[p] = sub(sub(budget[p], sumPay[p]), allowance[p])
		maxUnpaid[p] = add(budget[p], sumCred[p])
		if maxUnpaid[p].Cmp(avail) > 0 {
			avail = maxUnpaid[p]
		}
	}
	avail = add(avail, bi(5000))
	// resolve reserve amounts: D >= 0 -> must succeed whatever the interleaving, D < 0 -> must fail
	for g, ops := range c.G {
		for i, o := range ops {
			if o.K != "reserve" {
				continue
			}
			p := target(o)
			if o.Rel {
				if o.D >= 0 {
					v := sub(sub(avail, maxUnpaid[p]), bi(o.D))
					if v.Sign() < 0 {
						v = bi(0)
					}
					res[g][i].amt, res[g][i].sure = v.Uint64(), 1
				} else {
					v := add(sub(avail, minUnpaid[p]), bi(-o.D))
					res[g][i].amt, res[g][i].sure = v.Uint64(), -1
				}
			} else {
				t := bu(o.A)
				if add(maxUnpaid[p], t).Cmp(avail) <= 0 {
					res[g][i].sure = 1
				} else if add(minUnpaid[p], t).Cmp(avail) > 0 {
					res[g][i].sure = -1
				}
			}
		}
	}
	e.st.setAvail(avail)

	// pre-phase (sequential): credits that build the budget; crossings are exact here
	ctx := context.Background()
	preCross := make([]int, np)
	for p := 0; p < n; p++ {
		cur := bu(init[p])
		for _, a := range c.Peers[p].Pre {
			if err := e.acc.Credit(ctx, e.peers[p], a); err != nil {
				return st, "C32/op-error", fmt.Errorf("pre-credit peer %d amount %d: %v", p, a, err)
			}
			cur = add(cur, bu(a))
			if cur.Cmp(thr) >= 0 {
				preCross[p]++
			}
		}
	}
	e.st.mu.Lock()
	e.st.payEnabled = c.PayNotifies
	e.st.mu.Unlock()

	// concurrent phase
	start := make(chan struct{})
	var wg sync.WaitGroup
	panics := make([]string, len(c.G))
	for g := range c.G {
		wg.Add(1)
		go func(g int) {
			defer wg.Done()
			defer func() {
				if r := recover(); r != nil {
					panics[g] = fmt.Sprintf("goroutine %d: panic: %v\n%s", g, r, debug.Stack())
				}
			}()
			<-start
			for i, o := range c.G[g] {
				p := target(o)
				peer := e.peers[p]
				a := res[g][i].amt
				switch o.K {
				case "credit":
					res[g][i].err = e.acc.Credit(ctx, peer, a)
				case "notify":
					res[g][i].err = e.acc.NotifyPayment(peer, bu(a))
				case "debit":
					res[g][i].err = e.acc.Debit(peer, a)
				case "reserve":
					res[g][i].err = e.acc.Reserve(peer, a)
				}
			}
		}(g)
	}
	close(start)
	wg.Wait()
	for _, p := range panics {
		if p != "" {
			return st, "C32/panic", fmt.Errorf("%s", p)
		}
	}
	if s, err := e.flush(); err != nil {
		return st, s, err
	}

	// per-op results
	refused := make([]int, np)
	accN := make([]int, np)
	accSum := make([]*big.Int, np)
	for p := range accSum {
		accSum[p] = bi(0)
	}
	for g, ops := range c.G {
		for i, o := range ops {
			p := target(o)
			rr := res[g][i]
			switch o.K {
			case "credit", "notify":
				if rr.err != nil {
					return st, "C32/op-error", fmt.Errorf("goroutine %d op#%d %s(peer %d, %d): %v", g, i, o.K, p, rr.amt, rr.err)
				}
			case "debit":
				if rr.err != nil {
					refused[p]++
					st.refused++
				} else {
					accN[p]++
					accSum[p] = add(accSum[p], bu(rr.amt))
				}
			case "reserve":
				if rr.sure > 0 && rr.err != nil {
					return st, "C32/reserve-result", fmt.Errorf("goroutine %d op#%d Reserve(peer %d, %d) refused (%v) although available %v >= max possible unpaid %v + traffic", g, i, p, rr.amt, rr.err, avail, maxUnpaid[p])
				}
				if rr.sure < 0 && rr.err == nil {
					return st, "C32/reserve-result", fmt.Errorf("goroutine %d op#%d Reserve(peer %d, %d) accepted although available %v < min possible unpaid %v + traffic", g, i, p, rr.amt, avail, minUnpaid[p])
				}
			}
		}
	}
	e.st.mu.Lock()
	badPay := append([]string{}, e.st.badPay...)
	nerrs := append([]string{}, e.st.notifyErrs...)
	over := append([]string{}, e.st.overTolPuts...)
	pays := make([]int, np)
	stubPaid := make([]*big.Int, np)
	putN := make([]int, np)
	putSum := make([]*big.Int, np)
	for p := 0; p < np; p++ {
		k := e.peers[p].String()
		pays[p] = e.st.pays[k]
		stubPaid[p] = new(big.Int).Set(get(e.st.stubPaid, k))
		putN[p] = e.st.putTraN[k]
		putSum[p] = new(big.Int).Set(get(e.st.putTraSum, k))
	}
	e.st.mu.Unlock()
	if len(badPay) > 0 {
		return st, "C32/pay-args", fmt.Errorf("Pay called with a threshold other than %v: %v", thr, badPay)
	}
	if len(nerrs) > 0 {
		return st, "C32/op-error", fmt.Errorf("NotifyPayment from Pay failed: %v", nerrs)
	}
	if len(over) > 0 {
		return st, "C32/debit-recorded-over-tolerance", fmt.Errorf("served traffic recorded for a peer whose unsettled amount had reached the tolerance: %v", over)
	}
	for p := 0; p < np; p++ {
		// unpaid balance: order independent because payments never exceed completed credits
		want := sub(sub(add(budget[p], sumCred[p]), sumPay[p]), stubPaid[p])
		if s, err := e.probe(p, want, want, "after concurrent phase"); err != nil {
			return st, s, err
		}
		// debits
		if putN[p] != accN[p] || putSum[p].Cmp(accSum[p]) != 0 {
			return st, "C32/debit-record-mismatch", fmt.Errorf("peer %d: %d debits accepted (sum %v) but %d recorded (sum %v)", p, accN[p], accSum[p], putN[p], putSum[p])
		}
		if u := e.st.unsettled(e.peers[p]); refused[p] > 0 && u.Cmp(tol) < 0 {
			return st, "C32/debit-wrongly-refused", fmt.Errorf("peer %d: %d debits refused but unsettled %v never reached tolerance %v", p, refused[p], u, tol)
		}
		// pay requests
		sure, never := 0, 0
		if p < n {
			for g, ops := range c.G {
				own, ownPay := bi(0), bi(0)
				after := bi(0) // own credits after the current one
				for _, o := range ops {
					if o.K == "credit" && target(o) == p {
						after = add(after, bu(o.A))
					}
				}
				for i, o := range ops {
					if target(o) != p {
						continue
					}
					if o.K == "notify" {
						ownPay = add(ownPay, bu(res[g][i].amt))
					}
					if o.K != "credit" {
						continue
					}
					own = add(own, bu(o.A))
					after = sub(after, bu(o.A))
					lo := sub(sub(add(budget[p], own), sumPay[p]), allowance[p])
					hi := sub(sub(add(budget[p], sumCred[p]), after), ownPay)
					if lo.Cmp(thr) >= 0 {
						sure++
					} else if hi.Cmp(thr) < 0 {
						never++
					}
				}
			}
		}
		lo, hi := preCross[p]+sure, preCross[p]+nCred[p]-never
		if p < n && nCred[p] > 0 {
			if lo == hi {
				st.classes = append(st.classes, "con:pay-count-exact(peer)")
			} else {
				st.classes = append(st.classes, "con:pay-count-interval(peer)")
			}
		}
		st.crossings += preCross[p] + sure
		if pays[p] < lo {
			return st, "C32/pay-missing", fmt.Errorf("peer %d: at least %d credits left unpaid >= threshold %v under every interleaving but Pay was requested %d times", p, lo, thr, pays[p])
		}
		if pays[p] > hi {
			return st, "C32/pay-spurious", fmt.Errorf("peer %d: at most %d credits can leave unpaid >= threshold %v but Pay was requested %d times", p, hi, thr, pays[p])
		}
	}
	st.classes = append(st.classes, fmt.Sprintf("con:regime-%d", regime))
	return st, "", nil
}

func genCon(t *rapid.T, maxG int) conCase {
	var c conCase
	c.Regime = rapid.SampledFrom([]int{0, 0, 1, 2, 2, 2}).Draw(t, "regime")
	c.Threshold = rapid.OneOf(rapid.SampledFrom([]uint64{1, 256, 4096}), rapid.Uint64Range(1, 8000)).Draw(t, "threshold")
	c.Tolerance = rapid.Uint64Range(1, 4000).Draw(t, "tolerance")
	c.PayNotifies = rapid.Bool().Draw(t, "paynotifies")
	c.StubPay = rapid.Uint64Range(1, 3000).Draw(t, "stubpay")
	n := rapid.IntRange(1, 3).Draw(t, "peers")
	for i := 0; i < n; i++ {
		var p cpeer
		p.Init = rapid.Uint64Range(0, 5000).Draw(t, "init")
		p.InitUnsettled = rapid.Uint64Range(0, 1500).Draw(t, "unsettled")
		k := rapid.IntRange(0, 3).Draw(t, "npre")
		for j := 0; j < k; j++ {
			p.Pre = append(p.Pre, rapid.OneOf(rapid.Just(uint64(256)), rapid.Uint64Range(1, 3000)).Draw(t, "pre"))
		}
		c.Peers = append(c.Peers, p)
	}
	g := rapid.IntRange(2, maxG).Draw(t, "goroutines")
	kinds := []string{"credit", "credit", "credit", "notify", "notify", "debit", "debit", "reserve", "reserve"}
	for i := 0; i < g; i++ {
		k := rapid.IntRange(1, 12).Draw(t, "nops")
		var ops []op
		for j := 0; j < k; j++ {
			o := op{K: rapid.SampledFrom(kinds).Draw(t, "kind")}
			// bias towards peer 0 so that several goroutines meet on one peer
			o.P = rapid.SampledFrom([]int{0, 0, 0, 1, 2}).Draw(t, "peer") % n
			switch o.K {
			case "credit":
				o.A = rapid.OneOf(rapid.Just(uint64(256)), rapid.Uint64Range(1, 1000)).Draw(t, "a")
			case "notify":
				o.A = rapid.Uint64Range(1, 1500).Draw(t, "a")
			case "debit":
				o.A = rapid.Uint64Range(1, 1000).Draw(t, "a")
			case "reserve":
				o.Rel = rapid.IntRange(0, 3).Draw(t, "rel") > 0
				o.D = rapid.Int64Range(-3, 3).Draw(t, "d")
				o.A = rapid.Uint64Range(0, 12000).Draw(t, "a")
			}
			ops = append(ops, o)
		}
		c.G = append(c.G, ops)
	}
	return c
}

func recordCon(r *evid.Rec, c conCase, st stats, tag string) {
	cls := append([]string{tag}, st.classes...)
	if st.conPeers > 0 {
		cls = append(cls, tag+":>=2-goroutines-on-one-peer")
	}
	if st.refused > 0 {
		cls = append(cls, tag+":debit-refused")
	}
	if st.crossings > 0 {
		cls = append(cls, tag+":certain-threshold-crossing")
	}
	if c.PayNotifies {
		cls = append(cls, tag+":pay-notifies")
	}
	cls = append(cls, fmt.Sprintf("%s:goroutines-%d", tag, len(c.G)))
	r.Case(evid.Hash64(tag, c), st.conPeers > 0, cls...)
	r.Sample(map[string]interface{}{"kind": tag, "case": c})
}

const ruleCon = "concurrent: rapid draws 1-3 peers (initial unpaid, 0-3 sequential pre-credits = payment budget), 2-8 goroutines with 1-12 ops each (Credit/NotifyPayment/Debit/Reserve, biased to peer 0), a threshold regime (every credit crosses / none / mixed) and whether the settlement stub itself notifies a payment from inside Pay; payment amounts are capped in program order so Σpayments <= completed credits, hence the final balance is order independent and pinned exactly after a FIFO sentinel; Pay count bounded by the credits that cross under every/no interleaving; debits: accepted <=> recorded, none recorded once tolerance reached, refusals only if tolerance reached; Reserve asserted when its outcome is the same under every interleaving; non-trivial = >= 2 goroutines credit/pay the same peer"

func TestC32_Concurrent(t *testing.T) {
	r := evid.Get(id)
	evid.Finish(t, r)
	r.SetRule(ruleCon)
	if replayOnly(t, r) {
		return
	}
	maxG := 6
	if evid.Thorough() {
		maxG = 8
	}
	evid.Checks(3000)
	rapid.Check(t, func(t *rapid.T) {
		c := genCon(t, maxG)
		st, sig, err := runCon(c, false)
		if err != nil {
			failR(t, sig, err, "con", c)
		}
		recordCon(r, c, st, "con")
	})
}

// TestC32_Concurrent_Race runs the same programs in the -race binary: the oracle
// "no data race" is the race detector itself.
func TestC32_Concurrent_Race(t *testing.T) {
	r := evid.Get(id)
	evid.Finish(t, r)
	r.SetRule(ruleCon)
	if replayOnly(t, r) {
		return
	}
	exclude := raceOn && evid.Known(sigReserveRace)
	evid.Checks(1000)
	rapid.Check(t, func(t *rapid.T) {
		c := genCon(t, 8)
		if exclude {
			for _, ops := range c.G {
				for _, o := range ops {
					if o.K == "reserve" {
						// Reserve concurrent with Credit/NotifyPayment of the same peer is the known
						// racy shape: it is moved to a peer without concurrent balance updates
						r.Excluded(sigReserveRace)
					}
				}
			}
		}
		st, sig, err := runCon(c, exclude)
		if err != nil {
			failR(t, sig, err, "con", c)
		}
		recordCon(r, c, st, "race")
	})
}

// ---- failure / replay plumbing ---------------------------------------------------

type replayDoc struct {
	Kind string          `json:"kind"`
	Case json.RawMessage `json:"case"`
}

func writeReplay(kind string, c interface{}) {
	dir := os.Getenv("VERIF_REPLAY_OUT")
	if dir == "" {
		return
	}
	b, err := json.MarshalIndent(map[string]interface{}{"kind": kind, "case": c}, "", " ")
	if err != nil {
		return
	}
	_ = os.MkdirAll(dir, 0o755)
	_ = os.WriteFile(filepath.Join(dir, fmt.Sprintf("c32-%s.json", kind)), b, 0o644)
}

func msg(sig string, err error, kind string, c interface{}) string {
	b, _ := json.Marshal(c)
	return evid.Violation(id, sig, fmt.Sprintf("%v :: %s case=%s", err, kind, b))
}

func fail(t *testing.T, sig string, err error, kind string, c interface{}) {
	t.Helper()
	writeReplay(kind, c)
	t.Fatalf("%s", msg(sig, err, kind, c))
}

func failR(t *rapid.T, sig string, err error, kind string, c interface{}) {
	writeReplay(kind, c) // overwritten while rapid shrinks: the last one is the minimal one
	t.Fatalf("%s", msg(sig, err, kind, c))
}

// replayOnly handles `./check C32 --replay <json written by writeReplay>`.
func replayOnly(t *testing.T, r *evid.Rec) bool {
	if os.Getenv("VERIF_REPLAY_ONLY") != "1" {
		return false
	}
	f := os.Getenv("VERIF_REPLAY_FILE")
	if f == "" {
		return false // rapid fail-file replay: run the property normally
	}
	b, err := os.ReadFile(f)
	if err != nil {
		t.Skipf("replay file: %v", err)
	}
	var d replayDoc
	if err := json.Unmarshal(b, &d); err != nil {
		t.Skipf("replay file: %v", err)
	}
	switch d.Kind {
	case "seq":
		var c seqCase
		if json.Unmarshal(d.Case, &c) == nil && len(c.Init) > 0 && len(c.Init) == len(c.InitUnsettled) && c.Threshold > 0 {
			if _, sig, err := runSeq(c); err != nil {
				t.Fatalf("%s", msg(sig, err, "seq", c))
			}
		}
	case "con":
		var c conCase
		if json.Unmarshal(d.Case, &c) == nil && len(c.Peers) > 0 {
			if _, sig, err := runCon(c, false); err != nil {
				t.Fatalf("%s", msg(sig, err, "con", c))
			}
		}
	}
	return true
}
