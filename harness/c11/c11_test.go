package c11

import (
	"bytes"
	"context"
	"errors"
	"fmt"
	"io/ioutil"
	"sort"
	"testing"

	"github.com/gauss-project/aurorafs/pkg/boson"
	"github.com/gauss-project/aurorafs/pkg/cac"
	"github.com/gauss-project/aurorafs/pkg/localstore"
	"github.com/gauss-project/aurorafs/pkg/logging"
	"github.com/gauss-project/aurorafs/pkg/sctx"
	"github.com/gauss-project/aurorafs/pkg/storage"
	"pgregory.net/rapid"
	"verifharness/internal/evid"
	"verifharness/internal/faultdrv"
	"verifharness/internal/nodelite"
)

const id = "C11"

// Universe: chunks 0..7 are ordinary content chunks, 8 and 9 act as file roots
// (they are chunks too: a file's root chunk is stored like any other).
const nChunks = 10
const root0 = 8

var universe []boson.Chunk

func init() {
	for i := 0; i < nChunks; i++ {
		data := bytes.Repeat([]byte{byte(i + 1)}, 10+i)
		ch, err := cac.New(data)
		if err != nil {
			panic(err)
		}
		universe = append(universe, ch)
	}
}

type op struct {
	K     string `json:"k"`              // put get getmulti has hasmulti set
	Mode  int    `json:"mode"`           // index into the mode table of the op kind
	Addrs []int  `json:"addrs"`          // indices into the universe
	Root  int    `json:"root,omitempty"` // 0 none, 1 -> chunk 8, 2 -> chunk 9
}

var (
	putModes = []storage.ModePut{storage.ModePutRequest, storage.ModePutUpload, storage.ModePutUploadPin, storage.ModePutRequestPin}
	getModes = []storage.ModeGet{storage.ModeGetLookup, storage.ModeGetSync, storage.ModeGetRequest}
	setModes = []storage.ModeSet{storage.ModeSetPin, storage.ModeSetUnpin, storage.ModeSetRemove, storage.ModeSetSync}
	hasModes = []storage.ModeHas{storage.ModeHasChunk, storage.ModeHasPin}
)

type store struct {
	db   *localstore.DB
	dsn  string
	tick int64
}

func newStore() (*store, error) {
	_, dsn := faultdrv.New()
	db, err := localstore.New(dsn, nodelite.AddrN(4242).Bytes(), &localstore.Options{Driver: faultdrv.Name, Capacity: 1000000}, logging.New(ioutil.Discard, 0))
	if err != nil {
		return nil, err
	}
	return &store{db: db, dsn: dsn}, nil
}

func (s *store) close() { s.db.Close(); faultdrv.Destroy(s.dsn) }

type dumpN struct {
	Ret    map[string]string // addr -> data
	Pin    map[string]uint64
	GC     map[string]uint64 // addr#k -> GCounter (one entry per gc index item; k numbers items of one address in key order)
	Access map[string]bool
	GCSize uint64
}

func (s *store) dump() (dumpN, error) {
	s.db.VerifWaitUpdateGC()
	d, err := s.db.VerifDump()
	if err != nil {
		return dumpN{}, err
	}
	out := dumpN{Ret: map[string]string{}, Pin: map[string]uint64{}, GC: map[string]uint64{}, Access: map[string]bool{}, GCSize: d.GCSize}
	for _, i := range d.Retrieval {
		out.Ret[string(i.Address)] = string(i.Data)
	}
	for _, i := range d.Pin {
		out.Pin[string(i.Address)] = i.PinCounter
	}
	cnt := map[string]int{}
	for _, i := range d.GC {
		out.GC[fmt.Sprintf("%s#%d", i.Address, cnt[string(i.Address)])] = i.GCounter
		cnt[string(i.Address)]++
	}
	for _, i := range d.Access {
		out.Access[string(i.Address)] = true
	}
	return out, nil
}

// equalStored compares what C11 is about: chunks, bytes and pin counts.
func (a dumpN) equalStored(b dumpN) (bool, string) {
	if fmt.Sprint(sortedS(a.Ret)) != fmt.Sprint(sortedS(b.Ret)) {
		return false, "retrieval index differs"
	}
	if fmt.Sprint(sortedU(a.Pin)) != fmt.Sprint(sortedU(b.Pin)) {
		return false, fmt.Sprintf("pin index differs: %v vs %v", sortedU(a.Pin), sortedU(b.Pin))
	}
	return true, ""
}

func (a dumpN) equal(b dumpN) (bool, string) {
	if fmt.Sprint(sortedS(a.Ret)) != fmt.Sprint(sortedS(b.Ret)) {
		return false, "retrieval index differs"
	}
	if fmt.Sprint(sortedU(a.Pin)) != fmt.Sprint(sortedU(b.Pin)) {
		return false, fmt.Sprintf("pin index differs: %v vs %v", sortedU(a.Pin), sortedU(b.Pin))
	}
	if fmt.Sprint(sortedU(a.GC)) != fmt.Sprint(sortedU(b.GC)) {
		return false, fmt.Sprintf("gc index differs: %v vs %v", sortedU(a.GC), sortedU(b.GC))
	}
	if a.GCSize != b.GCSize {
		return false, fmt.Sprintf("gcSize differs: %d vs %d", a.GCSize, b.GCSize)
	}
	return true, ""
}

func sortedS(m map[string]string) []string {
	var o []string
	for k, v := range m {
		o = append(o, fmt.Sprintf("%x=%x", k, v))
	}
	sort.Strings(o)
	return o
}
func sortedU(m map[string]uint64) []string {
	var o []string
	for k, v := range m {
		o = append(o, fmt.Sprintf("%x=%d", k[:4], v))
	}
	sort.Strings(o)
	return o
}

func ctxFor(root int) context.Context {
	if root == 0 {
		return context.Background()
	}
	return sctx.SetRootHash(context.Background(), universe[root0+root-1].Address())
}

// model of presence
type model struct {
	present map[int]bool
}

func (m *model) rootOK(root int) bool { return root == 0 || m.present[root0+root-1] }

// exec runs one op on a store. It returns the op's error and whether an observable
// result contradicted the model (sig,err).
func exec(s *store, m *model, o op, step int, checkModel bool) (opErr error, sig string, verr error) {
	s.tick++
	ctx := ctxFor(o.Root)
	var addrs []boson.Address
	var chs []boson.Chunk
	for _, a := range o.Addrs {
		addrs = append(addrs, universe[a].Address())
		chs = append(chs, universe[a])
	}
	switch o.K {
	case "put":
		mode := putModes[o.Mode]
		exist, err := s.db.Put(ctx, mode, chs...)
		if err != nil {
			return err, "", nil
		}
		if checkModel {
			if len(exist) != len(chs) {
				return nil, "C11/put-exist-length", fmt.Errorf("step %d: Put returned %d flags for %d chunks", step, len(exist), len(chs))
			}
			seen := map[int]bool{}
			for i, a := range o.Addrs {
				want := m.present[a] || seen[a]
				if exist[i] != want {
					return nil, "C11/put-exist-flag", fmt.Errorf("step %d: Put(%v,%v) exist[%d]=%v want %v", step, mode, o.Addrs, i, exist[i], want)
				}
				seen[a] = true
			}
		}
		for _, a := range o.Addrs {
			m.present[a] = true
		}
	case "get":
		ch, err := s.db.Get(ctx, getModes[o.Mode], addrs[0])
		if checkModel {
			if m.present[o.Addrs[0]] {
				if err != nil {
					return nil, "C11/get-missing", fmt.Errorf("step %d: Get(%v,%d) error %v but chunk was put and not removed", step, getModes[o.Mode], o.Addrs[0], err)
				}
				if !bytes.Equal(ch.Data(), universe[o.Addrs[0]].Data()) || !ch.Address().Equal(addrs[0]) {
					return nil, "C11/get-bytes", fmt.Errorf("step %d: Get(%d) returned different bytes", step, o.Addrs[0])
				}
			} else if !errors.Is(err, storage.ErrNotFound) {
				return nil, "C11/get-absent", fmt.Errorf("step %d: Get(%d) of absent chunk: err=%v", step, o.Addrs[0], err)
			}
		}
	case "getmulti":
		out, err := s.db.GetMulti(ctx, getModes[o.Mode], addrs...)
		if checkModel {
			all := true
			for _, a := range o.Addrs {
				all = all && m.present[a]
			}
			if all {
				if err != nil {
					return nil, "C11/getmulti-missing", fmt.Errorf("step %d: GetMulti(%v) error %v but all present", step, o.Addrs, err)
				}
				for i, a := range o.Addrs {
					if !bytes.Equal(out[i].Data(), universe[a].Data()) {
						return nil, "C11/getmulti-bytes", fmt.Errorf("step %d: GetMulti(%v)[%d] wrong bytes", step, o.Addrs, i)
					}
				}
			} else if !errors.Is(err, storage.ErrNotFound) {
				return nil, "C11/getmulti-absent", fmt.Errorf("step %d: GetMulti(%v) with an absent chunk: err=%v", step, o.Addrs, err)
			}
		}
	case "has":
		if hasModes[o.Mode] == storage.ModeHasChunk && checkModel {
			h, err := s.db.Has(ctx, storage.ModeHasChunk, addrs[0])
			if err != nil || h != m.present[o.Addrs[0]] {
				return nil, "C11/has", fmt.Errorf("step %d: Has(%d)=%v,%v want %v", step, o.Addrs[0], h, err, m.present[o.Addrs[0]])
			}
		}
	case "hasmulti":
		if checkModel {
			hs, err := s.db.HasMulti(ctx, storage.ModeHasChunk, addrs...)
			if err != nil || len(hs) != len(addrs) {
				return nil, "C11/hasmulti", fmt.Errorf("step %d: HasMulti err=%v len=%d", step, err, len(hs))
			}
			for i, a := range o.Addrs {
				if hs[i] != m.present[a] {
					return nil, "C11/hasmulti", fmt.Errorf("step %d: HasMulti(%v)[%d]=%v want %v", step, o.Addrs, i, hs[i], m.present[a])
				}
			}
		}
	case "set":
		mode := setModes[o.Mode]
		var before dumpN
		if mode == storage.ModeSetRemove && checkModel {
			before, _ = s.dump()
		}
		err := s.db.Set(ctx, mode, addrs...)
		if err != nil {
			return err, "", nil
		}
		if mode == storage.ModeSetRemove {
			if checkModel {
				after, _ := s.dump()
				for _, a := range o.Addrs {
					k := string(universe[a].Address().Bytes())
					pc := before.Pin[k]
					_, still := after.Ret[k]
					if pc <= 1 {
						if still {
							return nil, "C11/remove-left-chunk", fmt.Errorf("step %d: Set(remove,%d) returned nil but the chunk (pin count %d) is still stored", step, a, pc)
						}
						m.present[a] = false
					} else {
						// pinned more than once: "chunk still pinned" - absent, or present with a lowered counter
						if still && after.Pin[k] != pc-1 {
							return nil, "C11/remove-pinned-counter", fmt.Errorf("step %d: Set(remove,%d) on chunk with pin count %d kept the chunk (\"still pinned\") but left the counter at %d instead of %d", step, a, pc, after.Pin[k], pc-1)
						}
						m.present[a] = still
					}
				}
			} else {
				after, _ := s.dump()
				for _, a := range o.Addrs {
					_, still := after.Ret[string(universe[a].Address().Bytes())]
					m.present[a] = still
				}
			}
		}
	}
	return nil, "", nil
}

// presenceSweep compares every universe chunk with the model through the public API.
func presenceSweep(s *store, m *model, step int) (string, error) {
	for a := 0; a < nChunks; a++ {
		h, err := s.db.Has(context.Background(), storage.ModeHasChunk, universe[a].Address())
		if err != nil {
			return "C11/has", err
		}
		if h != m.present[a] {
			return "C11/presence", fmt.Errorf("after step %d: chunk %d reported present=%v, model says %v", step, a, h, m.present[a])
		}
		ch, err := s.db.Get(context.Background(), storage.ModeGetLookup, universe[a].Address())
		if m.present[a] {
			if err != nil || !bytes.Equal(ch.Data(), universe[a].Data()) {
				return "C11/get-bytes", fmt.Errorf("after step %d: chunk %d unreadable or different: %v", step, a, err)
			}
		} else if !errors.Is(err, storage.ErrNotFound) {
			return "C11/get-absent", fmt.Errorf("after step %d: absent chunk %d Get err=%v", step, a, err)
		}
	}
	return "", nil
}

const (
	sigDupPin   = "C11/in-call-duplicate-under-pinning-put-pins-once"
	sigBatch    = "C11/multi-put-request-under-root-differs-from-singles"
	sigErrDirty = "C11/failed-set-changed-indexes"
)

// normalise applies the caller-observed precondition: a root context is only used
// while that root chunk is stored.
func normalise(m *model, o op) op {
	if !m.rootOK(o.Root) {
		o.Root = 0
	}
	return o
}

func dedup(a []int) []int {
	seen := map[int]bool{}
	var o []int
	for _, x := range a {
		if !seen[x] {
			seen[x] = true
			o = append(o, x)
		}
	}
	return o
}

// hasDupPin: a pinning put whose argument list repeats an address.
func hasDupPin(o op) bool {
	if o.K != "put" {
		return false
	}
	md := putModes[o.Mode]
	if md != storage.ModePutUploadPin && md != storage.ModePutRequestPin {
		return false
	}
	return len(dedup(o.Addrs)) != len(o.Addrs)
}

func isMultiReqPutUnderRoot(o op) bool {
	if o.K != "put" || o.Root == 0 || len(o.Addrs) < 2 {
		return false
	}
	md := putModes[o.Mode]
	return md == storage.ModePutRequest || md == storage.ModePutRequestPin
}

func run(ops []op) (sig string, err error, nt bool, classes []string) {
	s1, e := newStore()
	if e != nil {
		return "C11/harness", e, false, nil
	}
	defer s1.close()
	s2, e := newStore()
	if e != nil {
		return "C11/harness", e, false, nil
	}
	defer s2.close()
	restore := localstore.VerifSetNow(func() int64 { return 1000 })
	defer localstore.VerifSetNow(restore)
	m1 := &model{present: map[int]bool{}}
	m2 := &model{present: map[int]bool{}}
	cls := map[string]bool{}
	taint := "" // first executed op shape with a listed/identified batch-vs-single root cause
	var clock int64 = 1000
	localstore.VerifSetNow(func() int64 { clock++; return clock })
	for i, o0 := range ops {
		o := normalise(m1, o0)
		twinDedup := false
		if isMultiReqPutUnderRoot(o) {
			cls["multi-put-request-with-root"] = true
			if evid.Known(sigBatch) {
				evid.Get(id).Excluded(sigBatch)
				o.Addrs = o.Addrs[:1]
			} else if taint == "" {
				taint = sigBatch
			}
		}
		if hasDupPin(o) {
			cls["in-call-duplicate-pinning-put"] = true
			if evid.Known(sigDupPin) {
				// known finding: the repeated chunk is pinned once, not once per occurrence. Only that
				// divergence is set aside: the call itself runs unchanged on the first store (flags, presence
				// and bytes are judged as always); the one-at-a-time twin gets each distinct chunk once, so
				// both stores keep agreeing on the pin counts afterwards
				evid.Get(id).Excluded(sigDupPin)
				twinDedup = true
			} else if taint == "" {
				taint = sigDupPin
			}
		}
		if o.K == "put" && len(o.Addrs) > 1 {
			cls["multi-put"] = true
			if o.Root != 0 {
				nt = true
			}
		}
		if o.K == "set" && setModes[o.Mode] == storage.ModeSetRemove {
			nt = true
			cls["remove"] = true
		}
		before, _ := s1.dump()
		opErr, sg, verr := exec(s1, m1, o, i, true)
		if verr != nil {
			return sg, verr, nt, keys(cls)
		}
		if opErr != nil {
			cls["op-error"] = true
			after, _ := s1.dump()
			ok, why := before.equal(after)
			if !ok && len(o.Addrs) > 1 {
				// a refused call naming several chunks (no caller passes more than one address to Set): what
				// this property speaks about - stored chunks, their bytes, their pin counts - must be
				// untouched; the cache bookkeeping of a partly processed call is not its subject
				ok, why = before.equalStored(after)
				cls["refused-multi-address-call"] = true
			}
			if !ok {
				if evid.Known(sigErrDirty) {
					evid.Get(id).Excluded(sigErrDirty)
					return "", nil, nt, keys(cls) // state diverged in a known way: stop this history here
				}
				return sigErrDirty, fmt.Errorf("step %d: %+v returned error %q but changed the indexes: %s", i, o, opErr, why), nt, keys(cls)
			}
		}
		if sg, e := presenceSweep(s1, m1, i); e != nil {
			return sg, e, nt, keys(cls)
		}
		// second store: same op, multi-puts split into singles
		if o.K == "put" && len(o.Addrs) > 1 {
			twin := o.Addrs
			if twinDedup {
				twin = dedup(o.Addrs)
			}
			for _, a := range twin {
				o1 := o
				o1.Addrs = []int{a}
				if e, _, _ := exec(s2, m2, o1, i, false); e != nil && opErr == nil {
					return "C11/batch-vs-single-error", fmt.Errorf("step %d: single put of %d failed (%v) while the batched put succeeded", i, a, e), nt, keys(cls)
				}
			}
		} else {
			exec(s2, m2, o, i, false)
		}
		d1, _ := s1.dump()
		d2, _ := s2.dump()
		if ok, why := d1.equal(d2); !ok {
			sg := "C11/batch-vs-single"
			if taint != "" {
				sg = taint
			}
			return sg, fmt.Errorf("after step %d (%+v): store with batched puts and store with one-at-a-time puts differ: %s", i, o, why), nt, keys(cls)
		}
	}
	return "", nil, nt, keys(cls)
}

func keys(m map[string]bool) []string {
	var o []string
	for k := range m {
		o = append(o, k)
	}
	sort.Strings(o)
	return o
}

func genOps(t *rapid.T) []op {
	n := rapid.IntRange(1, 30).Draw(t, "nops")
	var ops []op
	for i := 0; i < n; i++ {
		k := rapid.SampledFrom([]string{"put", "put", "put", "get", "getmulti", "has", "hasmulti", "set", "set", "set"}).Draw(t, "k")
		o := op{K: k}
		na := 1
		switch k {
		case "put":
			o.Mode = rapid.IntRange(0, 3).Draw(t, "pmode")
			na = rapid.SampledFrom([]int{1, 1, 2, 3, 4}).Draw(t, "n")
		case "get":
			o.Mode = rapid.IntRange(0, 2).Draw(t, "gmode")
		case "getmulti":
			o.Mode = rapid.IntRange(0, 2).Draw(t, "gmode")
			na = rapid.IntRange(1, 3).Draw(t, "n")
		case "has":
			o.Mode = rapid.IntRange(0, 1).Draw(t, "hmode")
		case "hasmulti":
			na = rapid.IntRange(1, 4).Draw(t, "n")
		case "set":
			// pin, unpin, remove: the statement's "pins and removals". ModeSetSync (index 3, kept in the
			// table for old replays) is a leftover of the upstream push-sync design that nothing in this
			// code base calls; it is not generated any more (it created cache entries with a zero count,
			// a state no caller can reach)
			o.Mode = rapid.IntRange(0, 2).Draw(t, "smode")
			na = rapid.SampledFrom([]int{1, 1, 1, 2, 3}).Draw(t, "n")
		}
		for j := 0; j < na; j++ {
			o.Addrs = append(o.Addrs, rapid.IntRange(0, nChunks-1).Draw(t, "a"))
		}
		o.Root = rapid.SampledFrom([]int{0, 0, 1, 1, 2}).Draw(t, "root")
		ops = append(ops, o)
	}
	return ops
}

func TestC11_ModelAndBatchEquivalence(t *testing.T) {
	r := evid.Get(id)
	evid.Finish(t, r)
	r.SetRule("rapid: histories of 1-30 ops over a universe of 10 valid content-addressed chunks (two of them act as file roots): Put in all 4 modes with 1-4 chunks incl. in-call duplicates and an optional file-root context (only while that root chunk is stored, as every caller guarantees), Get/GetMulti in 3 modes, Has/HasMulti, Set pin/unpin/remove with 1-3 addresses; oracle: presence/bytes model compared through Has+Get on the whole universe after every step, exist flags, failed operations leave all indexes unchanged (refused calls naming several addresses: stored chunks, bytes and pin counts unchanged), and the same history with every multi-put split into single puts on a second store yields identical retrieval/pin/gc indexes and gc size; non-trivial = history has a remove or a multi-chunk put under a file context; distinct by hash of the op list")
	for _, w := range []struct {
		sig string
		ops []op
	}{
		{sigBatch, []op{{K: "put", Mode: 1, Addrs: []int{8}}, {K: "put", Mode: 0, Addrs: []int{0, 1}, Root: 1}}},
		{sigDupPin, []op{{K: "put", Mode: 2, Addrs: []int{1, 1}}}},
	} {
		if evid.Known(w.sig) {
			// run the witness with the exclusion disabled by calling the strict runner
			if sg, err := runWitness(w.ops); err != nil && sg == w.sig {
				r.Witness(w.sig)
			}
		}
	}
	evid.Checks(400)
	rapid.Check(t, func(t *rapid.T) {
		ops := genOps(t)
		sig, err, nt, cls := run(ops)
		if err != nil {
			t.Fatalf("%s", evid.Violation(id, sig, fmt.Sprintf("%v\nhistory=%+v", err, ops)))
		}
		r.Case(evid.Hash64(ops), nt, cls...)
		r.Sample(ops)
	})
}

// runWitness runs a fixed history comparing batched and single puts without known-finding exclusions.
func runWitness(ops []op) (string, error) {
	s1, _ := newStore()
	defer s1.close()
	s2, _ := newStore()
	defer s2.close()
	m1 := &model{present: map[int]bool{}}
	m2 := &model{present: map[int]bool{}}
	for i, o := range ops {
		exec(s1, m1, o, i, false)
		if o.K == "put" && len(o.Addrs) > 1 {
			for _, a := range o.Addrs {
				o1 := o
				o1.Addrs = []int{a}
				exec(s2, m2, o1, i, false)
			}
		} else {
			exec(s2, m2, o, i, false)
		}
		d1, _ := s1.dump()
		d2, _ := s2.dump()
		if ok, why := d1.equal(d2); !ok {
			sg := "C11/batch-vs-single"
			if isMultiReqPutUnderRoot(o) {
				sg = sigBatch
			} else if hasDupPin(o) {
				sg = sigDupPin
			}
			return sg, errors.New(why)
		}
	}
	return "", nil
}
