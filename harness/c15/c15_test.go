package c15

import (
	"fmt"
	"sort"
	"testing"

	"pgregory.net/rapid"
	"verifharness/internal/evid"
	"verifharness/internal/nlhist"
	"verifharness/internal/nodelite"
)

const id = "C15"

var kinds = []string{"upload", "upload", "fetch", "pin", "pin", "pin", "unpin", "unpin", "unpin", "read", "restart"}

const (
	sigRepeatPinService = "C15/repeated-service-pin-increments-counters"
	sigPinnedReupload   = "C15/pinned-reupload-of-pinned-file-increments-counters"
)

type stats struct {
	nt      bool
	classes map[string]bool
}

func cmpCounts(got, want map[string]uint64) string {
	var diffs []string
	for a, w := range want {
		if w != 0 && got[a] != w {
			diffs = append(diffs, fmt.Sprintf("%s: have %d want %d", a[:8], got[a], w))
		}
	}
	for a, g := range got {
		if want[a] == 0 && g != 0 {
			diffs = append(diffs, fmt.Sprintf("%s: have %d want 0", a[:8], g))
		}
	}
	sort.Strings(diffs)
	if len(diffs) == 0 {
		return ""
	}
	return fmt.Sprint(diffs)
}

func run(c nlhist.Case, strict bool) (sig string, err error, st stats) {
	st.classes = map[string]bool{}
	w, e := nlhist.NewWorld(c)
	if e != nil {
		return "C15/harness", e, st
	}
	defer w.Close()
	model := map[string]uint64{} // expected pin counter per chunk
	pinned := map[int]bool{}     // file index -> listed as pinned
	addFile := func(f *nlhist.File, sign int) {
		for a, m := range f.All {
			if sign > 0 {
				model[a] += uint64(m)
			} else {
				model[a] -= uint64(m)
			}
		}
	}
	for i, op := range c.Ops {
		f := w.Files[op.F%len(w.Files)]
		// shapes of known findings are excluded by construction (unless the witness runs strictly)
		if !strict {
			if op.K == "pin" && !op.Flag && pinned[f.Idx] && evid.Known(sigRepeatPinService) {
				evid.Get(id).Excluded(sigRepeatPinService)
				continue
			}
			if op.K == "upload" && op.Flag && pinned[f.Idx] && evid.Known(sigPinnedReupload) {
				evid.Get(id).Excluded(sigPinnedReupload)
				continue
			}
		}
		before, _ := w.N.PinCounts()
		wasPinned := pinned[f.Idx]
		res := w.Apply(op)
		if res.Skipped {
			continue
		}
		after, _ := w.N.PinCounts()
		opSig := "C15/pin-counts-differ-from-model"
		switch op.K {
		case "upload":
			if res.Err != nil {
				return "C15/op-failed-upload", fmt.Errorf("step %d %+v: %v", i, op, res.Err), st
			}
			if op.Flag {
				if wasPinned {
					st.nt = true
					st.classes["pinned-upload-of-pinned-file"] = true
					opSig = sigPinnedReupload
				} else {
					addFile(f, +1)
					pinned[f.Idx] = true
				}
			}
		case "fetch", "restart":
			if res.Err != nil {
				return "C15/op-failed-" + op.K, fmt.Errorf("step %d %+v: %v", i, op, res.Err), st
			}
		case "pin":
			if res.Err != nil {
				return "C15/pin-failed", fmt.Errorf("step %d %+v on a fully stored reference failed: %v (http %d)", i, op, res.Err, res.Code), st
			}
			if wasPinned {
				st.nt = true
				st.classes["repeated-pin"] = true
				if !op.Flag {
					opSig = sigRepeatPinService
				}
				// repeating the pin has no further effect
			} else {
				addFile(f, +1)
				pinned[f.Idx] = true
				st.classes["first-pin"] = true
			}
		case "unpin":
			if wasPinned {
				if res.Err != nil {
					return "C15/unpin-failed", fmt.Errorf("step %d %+v of a pinned reference failed: %v (http %d)", i, op, res.Err, res.Code), st
				}
				addFile(f, -1)
				pinned[f.Idx] = false
				st.classes["unpin-of-pinned"] = true
			} else {
				// repeated unpin / unpin of a never pinned reference: an error is fine, state must not change
				st.nt = true
				st.classes["unpin-of-unpinned"] = true
				if d := cmpCounts(after, before); d != "" {
					return "C15/unpin-of-unpinned-changed-pin-state", fmt.Errorf("step %d %+v on a reference that is not pinned changed pin counters: %s", i, op, d), st
				}
			}
		}
		if d := cmpCounts(after, model); d != "" {
			return opSig, fmt.Errorf("step %d %+v (file %d, pinned before: %v): pin counters differ from the model: %s", i, op, f.Idx, wasPinned, d), st
		}
		// listing agrees with "last operation was a pin"
		var want []string
		for _, g := range w.Files {
			if pinned[g.Idx] {
				want = append(want, g.Ref.String())
			}
			has, herr := w.N.Pin.HasPin(g.Ref)
			if herr != nil || has != pinned[g.Idx] {
				return "C15/haspin", fmt.Errorf("step %d %+v: HasPin(file %d)=%v,%v want %v", i, op, g.Idx, has, herr, pinned[g.Idx]), st
			}
			code := w.N.HasPinHTTP(g.Ref)
			if (code == 200) != pinned[g.Idx] {
				return "C15/haspin-http", fmt.Errorf("step %d %+v: GET /pins/{file %d} = %d, pinned=%v", i, op, g.Idx, code, pinned[g.Idx]), st
			}
		}
		sort.Strings(want)
		got, code := w.N.PinsHTTP()
		if code != 200 || fmt.Sprint(got) != fmt.Sprint(want) {
			return "C15/pins-list", fmt.Errorf("step %d %+v: GET /pins = %v (%d) want %v", i, op, got, code, want), st
		}
		// files sharing a chunk with the file operated on make the case interesting
		for _, g := range w.Files {
			if g.Idx == f.Idx {
				continue
			}
			for a := range g.All {
				if f.All[a] > 0 && (op.K == "pin" || op.K == "unpin") {
					st.classes["pin-op-on-file-sharing-chunks"] = true
				}
			}
		}
	}
	return "", nil, st
}

func TestC15_PinUnpinModel(t *testing.T) {
	r := evid.Get(id)
	evid.Finish(t, r)
	r.SetRule("rapid: node-lite histories over 2-4 files with overlapping and repeated chunks: upload with/without the pin header (also twice), complete cached download, pin/unpin through POST/DELETE /pins/{ref} and through pinning.Service, reads, restart; oracle after every step: pin index == model (each pinned reference contributes the multiplicity with which traversal visits each of its chunks; a repeated pin adds nothing, unpin removes exactly that contribution, unpin of an unpinned reference changes nothing), HasPin/GET /pins/{ref}/GET /pins agree with 'last operation was a pin'; non-trivial = history has a repeated pin or an unpin of an unpinned reference; distinct by hash of the case")
	for _, wt := range []struct {
		sig string
		ops []nlhist.Op
	}{
		{sigRepeatPinService, []nlhist.Op{{K: "upload", F: 0}, {K: "pin", F: 0}, {K: "pin", F: 0}}},
		{sigPinnedReupload, []nlhist.Op{{K: "upload", F: 0, Flag: true}, {K: "upload", F: 0, Flag: true}}},
	} {
		if evid.Known(wt.sig) {
			wc := nlhist.Case{Files: c2files(), Ops: wt.ops}
			if sg, err, _ := run(wc, true); err != nil && sg == wt.sig {
				r.Witness(wt.sig)
			}
		}
	}
	evid.Checks(100)
	rapid.Check(t, func(t *rapid.T) {
		c := nlhist.Gen(t, nlhist.GenOptions{MaxFiles: 4, MaxOps: 16, Kinds: kinds, MaxBlocks: 2})
		for i := range c.Ops {
			if c.Ops[i].K == "fetch" {
				c.Ops[i].Arg = 0 // complete downloads only: pinning needs the whole file
			}
		}
		sig, err, st := run(c, false)
		if err != nil {
			t.Fatalf("%s", evid.Violation(id, sig, fmt.Sprintf("%v\ncase=%+v", err, c)))
		}
		var cls []string
		for k := range st.classes {
			cls = append(cls, k)
		}
		r.Case(evid.Hash64(c), st.nt, cls...)
		r.Sample(c)
	})
}

func c2files() []nodelite.FileSpec {
	return []nodelite.FileSpec{{Tags: []int{0, 0}, Tail: 9}, {Tags: []int{0}, Tail: 9}}
}
