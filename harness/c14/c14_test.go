package c14

import (
	"bytes"
	"context"
	"fmt"
	"io/ioutil"
	"sort"
	"testing"

	"github.com/gauss-project/aurorafs/pkg/aurora"
	"github.com/gauss-project/aurorafs/pkg/boson"
	"github.com/gauss-project/aurorafs/pkg/cac"
	"github.com/gauss-project/aurorafs/pkg/chunkinfo"
	"github.com/gauss-project/aurorafs/pkg/localstore"
	"github.com/gauss-project/aurorafs/pkg/logging"
	"github.com/gauss-project/aurorafs/pkg/retrieval/aco"
	"github.com/gauss-project/aurorafs/pkg/sctx"
	"github.com/gauss-project/aurorafs/pkg/storage"
	"pgregory.net/rapid"
	"verifharness/internal/evid"
	"verifharness/internal/faultdrv"
	"verifharness/internal/nodelite"
)

const id = "C14"

// universe: chunks 0..3 ordinary, 4 and 5 are file roots (they are chunks too)
const nChunks = 6
const root0 = 4

var universe []boson.Chunk

func init() {
	for i := 0; i < nChunks; i++ {
		ch, err := cac.New(bytes.Repeat([]byte{byte(i + 1)}, 12+i))
		if err != nil {
			panic(err)
		}
		universe = append(universe, ch)
	}
}

type op struct {
	K    string `json:"k"` // put set gc
	Mode int    `json:"mode"`
	A    int    `json:"a"`
	Root int    `json:"root"` // 0 none, 1,2 -> chunks 6,7
	Cap  int    `json:"cap,omitempty"`
}

var (
	putModes = []storage.ModePut{storage.ModePutRequest, storage.ModePutUpload, storage.ModePutUploadPin}
	setModes = []storage.ModeSet{storage.ModeSetPin, storage.ModeSetUnpin, storage.ModeSetRemove}
)

// files is the minimal stand-in for chunkinfo that garbage collection needs: per file root the
// chunks cached under it (with multiplicity 1) and a cross-file reference count.
type files struct {
	chunkinfo.Interface // nil: any other method would panic and show up as a harness error
	m                   map[string][]int
}

func (f *files) IsDiscover(boson.Address) bool { return false }
func (f *files) DelDiscover(boson.Address)     {}
func (f *files) GetChunkInfo(boson.Address, boson.Address) []aco.Route { return nil }
func (f *files) GetChunkInfoServerOverlays(boson.Address) []aurora.ChunkInfoOverlay { return nil }
func (f *files) refs(a int) int {
	n := 0
	for _, l := range f.m {
		for _, x := range l {
			if x == a {
				n++
				break
			}
		}
	}
	return n
}
func (f *files) GetChunkPyramid(root boson.Address) []*chunkinfo.PyramidCidNum {
	var out []*chunkinfo.PyramidCidNum
	for _, a := range f.m[root.String()] {
		if f.refs(a) > 1 {
			continue
		}
		out = append(out, &chunkinfo.PyramidCidNum{Cid: universe[a].Address(), Number: 1})
	}
	return out
}
func (f *files) DelFile(root boson.Address, del func() error) error {
	if _, ok := f.m[root.String()]; !ok {
		return storage.ErrNotFound
	}
	if err := del(); err != nil {
		return err
	}
	delete(f.m, root.String())
	return nil
}
func (f *files) add(root, a int) {
	k := universe[root].Address().String()
	for _, x := range f.m[k] {
		if x == a {
			return
		}
	}
	f.m[k] = append(f.m[k], a)
}

type store struct {
	db   *localstore.DB
	back *faultdrv.Backing
	dsn  string
	fs   *files
}

func open(dsn string, fs *files) (*localstore.DB, error) {
	db, err := localstore.New(dsn, nodelite.AddrN(777).Bytes(), &localstore.Options{Driver: faultdrv.Name, Capacity: 1000000}, logging.New(ioutil.Discard, 0))
	if err != nil {
		return nil, err
	}
	db.SetChunkInfo(fs)
	return db, nil
}

func newStore() (*store, error) {
	back, dsn := faultdrv.New()
	fs := &files{m: map[string][]int{}}
	db, err := open(dsn, fs)
	if err != nil {
		return nil, err
	}
	return &store{db: db, back: back, dsn: dsn, fs: fs}, nil
}

func (s *store) close() { s.db.Close(); faultdrv.Destroy(s.dsn) }

type state struct {
	Ret    map[int]bool
	Bad    []string // structural problems (see invariants)
	Pin    map[int]uint64
	GCSum  uint64
	GCSize uint64
}

func idx(addr []byte) int {
	for i, c := range universe {
		if bytes.Equal(c.Address().Bytes(), addr) {
			return i
		}
	}
	return -1
}

// snapshot reads the reopened (or live) store and evaluates the structural invariants.
func snapshot(db *localstore.DB) (state, error) {
	db.VerifWaitUpdateGC()
	d, err := db.VerifDump()
	if err != nil {
		return state{}, err
	}
	st := state{Ret: map[int]bool{}, Pin: map[int]uint64{}, GCSize: d.GCSize}
	for _, it := range d.Retrieval {
		i := idx(it.Address)
		if i < 0 {
			st.Bad = append(st.Bad, fmt.Sprintf("unknown chunk %x stored", it.Address[:4]))
			continue
		}
		if !bytes.Equal(it.Data, universe[i].Data()) {
			st.Bad = append(st.Bad, fmt.Sprintf("chunk %d stored with wrong bytes", i))
		}
		st.Ret[i] = true
	}
	for _, it := range d.Pin {
		i := idx(it.Address)
		st.Pin[i] = it.PinCounter
		if !st.Ret[i] {
			st.Bad = append(st.Bad, fmt.Sprintf("pin entry for chunk %d (count %d) without its data", i, it.PinCounter))
		}
	}
	for _, it := range d.GC {
		i := idx(it.Address)
		st.GCSum += it.GCounter
		if !st.Ret[i] {
			st.Bad = append(st.Bad, fmt.Sprintf("cache (gc) entry for file root %d without the root chunk's data", i))
		}
	}
	for _, it := range d.Access {
		// "fully present ... or fully absent": an access-time record belongs to a stored chunk
		if i := idx(it.Address); !st.Ret[i] {
			st.Bad = append(st.Bad, fmt.Sprintf("access-time entry for chunk %d without its data", i))
		}
	}
	if st.GCSize < st.GCSum {
		st.Bad = append(st.Bad, fmt.Sprintf("cached-chunk counter %d below the recomputed total %d", st.GCSize, st.GCSum))
	}
	sort.Strings(st.Bad)
	return st, nil
}

func ctxFor(root int) context.Context {
	if root == 0 {
		return context.Background()
	}
	return sctx.SetRootHash(context.Background(), universe[root0+root-1].Address())
}

// apply executes one op; errors are returned, never judged here.
func apply(s *store, o op, present func(int) bool) error {
	root := o.Root
	if root != 0 && !present(root0+root-1) && !(o.K == "put" && o.A == root0+root-1) {
		// a file context is only used while its root chunk is stored (every caller guarantees it) -
		// or for storing that root chunk itself, which is how every download begins
		root = 0
	}
	switch o.K {
	case "put":
		mode := putModes[o.Mode%len(putModes)]
		_, err := s.db.Put(ctxFor(root), mode, universe[o.A])
		if err == nil && root != 0 && mode == storage.ModePutRequest {
			s.fs.add(root0+root-1, o.A)
		}
		return err
	case "set":
		mode := setModes[o.Mode%len(setModes)]
		if mode == storage.ModeSetRemove && o.A >= root0 {
			// a file's root chunk is only ever removed under its own file context (delete handler, GC)
			root = o.A - root0 + 1
		}
		err := s.db.Set(ctxFor(root), mode, universe[o.A].Address())
		if err == nil && mode == storage.ModeSetRemove && o.A >= root0 {
			delete(s.fs.m, universe[o.A].Address().String())
		}
		return err
	case "gc":
		for i := 0; i < 8; i++ {
			_, done, err := s.db.VerifCollectGarbage(uint64(o.Cap))
			if err != nil || done {
				return err
			}
		}
	}
	return nil
}

// replay builds a fresh store and applies ops[:n]; returns the store.
func replay(ops []op, n int) (*store, error) {
	s, err := newStore()
	if err != nil {
		return nil, err
	}
	for _, o := range ops[:n] {
		st, _ := snapshot(s.db)
		_ = apply(s, o, func(i int) bool { return st.Ret[i] })
	}
	return s, nil
}

type result struct {
	points, inside int
	classes        []string
}

// run: for the chosen ops (last one, or all in thorough), enumerate every driver write k of that op as crash point.
func run(ops []op, all bool) (sig string, err error, res result) {
	first := len(ops) - 1
	if all {
		first = 0
	}
	for n := first; n < len(ops); n++ {
		// clean run of op n to learn its writes and the before/after states
		s, e := replay(ops, n)
		if e != nil {
			return "C14/harness", e, res
		}
		before, _ := snapshot(s.db)
		s.back.Arm(0)
		s.back.Disarm()
		_ = apply(s, ops[n], func(i int) bool { return before.Ret[i] })
		s.db.VerifWaitUpdateGC()
		w := s.back.Writes()
		wlog := s.back.Log()
		after, _ := snapshot(s.db)
		s.close()
		if len(before.Bad) != 0 || len(after.Bad) != 0 {
			// an invariant can only be demanded after a crash if it holds in the clean states around
			// the operation; such operations are counted and not interrupted
			res.classes = append(res.classes, "skipped:clean-state-outside-invariants")
			continue
		}
		if w >= 2 {
			res.classes = append(res.classes, "op-with-2+-driver-writes:"+ops[n].K)
		}
		for k := 1; k <= w; k++ {
			s, e := replay(ops, n)
			if e != nil {
				return "C14/harness", e, res
			}
			s.back.Arm(k)
			_ = apply(s, ops[n], func(i int) bool { return before.Ret[i] })
			s.db.VerifWaitUpdateGC()
			// the process is gone: abandon the store object, reopen on the same backing database
			_ = s.db.Close()
			s.back.Disarm()
			db2, e := open(s.dsn, s.fs)
			if e != nil {
				faultdrv.Destroy(s.dsn)
				return "C14/reopen-failed", fmt.Errorf("op#%d %+v crash at write %d/%d (%v): reopen failed: %v", n, ops[n], k, w, wlog, e), res
			}
			got, _ := snapshot(db2)
			db2.Close()
			faultdrv.Destroy(s.dsn)
			res.points++
			if w >= 2 {
				res.inside++
			}
			where := fmt.Sprintf("op#%d %+v, crash at driver write %d of %d %v", n, ops[n], k, w, wlog)
			if len(got.Bad) != 0 {
				return "C14/inconsistent-after-crash", fmt.Errorf("%s: after reopening: %v", where, got.Bad), res
			}
			for i := 0; i < nChunks; i++ {
				if got.Pin[i] != before.Pin[i] && got.Pin[i] != after.Pin[i] {
					return "C14/pin-count-neither-before-nor-after", fmt.Errorf("%s: pin count of chunk %d is %d, before %d, after %d", where, i, got.Pin[i], before.Pin[i], after.Pin[i]), res
				}
				if got.Ret[i] != before.Ret[i] && got.Ret[i] != after.Ret[i] {
					return "C14/presence-neither-before-nor-after", fmt.Errorf("%s: presence of chunk %d is %v, before %v, after %v", where, i, got.Ret[i], before.Ret[i], after.Ret[i]), res
				}
			}
		}
	}
	return "", nil, res
}

func genOps(t *rapid.T, max int) []op {
	g := rapid.Custom(func(t *rapid.T) op {
		o := op{K: rapid.SampledFrom([]string{"put", "put", "put", "set", "set", "set", "gc"}).Draw(t, "k")}
		o.A = rapid.IntRange(0, nChunks-1).Draw(t, "a")
		o.Root = rapid.SampledFrom([]int{0, 1, 1, 1, 2}).Draw(t, "root")
		switch o.K {
		case "put":
			// request-puts dominate: they build cache entries with counters > 1, which is what
			// makes pin/unpin/remove under a file context multi-write operations
			o.Mode = rapid.SampledFrom([]int{0, 0, 0, 1, 2}).Draw(t, "pmode")
		case "set":
			o.Mode = rapid.SampledFrom([]int{0, 0, 1, 2}).Draw(t, "smode")
		case "gc":
			o.Cap = rapid.IntRange(1, 3).Draw(t, "cap")
		}
		return o
	})
	// a stored root makes file contexts usable from the start in most histories
	pre := []op{}
	if rapid.IntRange(0, 3).Draw(t, "preroot") > 0 {
		pre = append(pre, op{K: "put", Mode: rapid.IntRange(0, 1).Draw(t, "rootmode"), A: root0, Root: 1})
	}
	return append(pre, rapid.SliceOfN(g, 1, max).Draw(t, "ops")...)
}

func TestC14_CrashAtEveryWrite(t *testing.T) {
	r := evid.Get(id)
	evid.Finish(t, r)
	r.SetRule("rapid: histories of 2-15 single-chunk operations on the real local store opened through a fault-injecting storage driver (request/upload/pinned puts, pin/unpin/remove with and without a file context, synchronous GC runs over a minimal file table); the history is first run cleanly to count the driver writes W of every operation, then for EVERY k in 1..W it is re-run from scratch with write k and all later writes dropped, the store is abandoned and reopened on the same backing database; oracle on the reopened store: stored chunks have exact bytes, every pin entry, cache entry and access-time entry refers to stored data, cached-chunk counter >= recomputed total, each chunk's pin count and presence equal their value before or after the interrupted operation; one evaluation = one (history, crash point); non-trivial = crash point inside an operation with >= 2 driver writes")
	evid.Checks(300)
	all := true // interrupting every operation of a history is cheap enough for the quick tier too
	rapid.Check(t, func(t *rapid.T) {
		ops := genOps(t, 14)
		sig, err, res := run(ops, all)
		if err != nil {
			t.Fatalf("%s", evid.Violation(id, sig, fmt.Sprintf("%v\nhistory=%+v", err, ops)))
		}
		for k := 0; k < res.points; k++ {
			r.Case(evid.Hash64(ops, k), k < res.inside, res.classes...)
		}
		if res.points == 0 {
			r.Class("last-op-made-no-write")
		}
		r.Sample(ops)
	})
	// file-focused histories: every operation works on three chunks of ONE file under its file
	// context, so that pin/unpin/remove sequences on chunks of a file with an existing cache entry
	// (the multi-write operations) are dense
	evid.Checks(200)
	rapid.Check(t, func(t *rapid.T) {
		g := rapid.Custom(func(t *rapid.T) op {
			o := op{K: rapid.SampledFrom([]string{"put", "put", "set", "set", "set", "gc"}).Draw(t, "k"), Root: 1}
			o.A = rapid.IntRange(0, 2).Draw(t, "a")
			switch o.K {
			case "put":
				o.Mode = rapid.SampledFrom([]int{0, 0, 2, 2, 1}).Draw(t, "pmode")
			case "set":
				o.Mode = rapid.SampledFrom([]int{0, 1, 1, 2}).Draw(t, "smode")
			case "gc":
				o.Cap = rapid.IntRange(1, 3).Draw(t, "cap")
			}
			return o
		})
		ops := append([]op{{K: "put", Mode: rapid.IntRange(0, 2).Draw(t, "rootmode"), A: root0, Root: 1}}, rapid.SliceOfN(g, 2, 12).Draw(t, "ops")...)
		sig, err, res := run(ops, all)
		if err != nil {
			t.Fatalf("%s", evid.Violation(id, sig, fmt.Sprintf("%v\nhistory=%+v", err, ops)))
		}
		for k := 0; k < res.points; k++ {
			r.Case(evid.Hash64("file", ops, k), k < res.inside, append(res.classes, "file-focused")...)
		}
		r.Sample(ops)
	})
	r.Exhaustive()
}
