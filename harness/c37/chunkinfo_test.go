package c37

import (
	"bytes"
	"context"
	"encoding/binary"
	"encoding/hex"
	"fmt"
	"reflect"
	"runtime"
	"sort"
	"sync"
	"testing"
	"time"

	"github.com/gauss-project/aurorafs/pkg/boson"
	"github.com/gauss-project/aurorafs/pkg/cac"
	"github.com/gauss-project/aurorafs/pkg/chunkinfo"
	cipb "github.com/gauss-project/aurorafs/pkg/chunkinfo/pb"
	"github.com/gauss-project/aurorafs/pkg/settlement/chain"
	"github.com/gauss-project/aurorafs/pkg/storage"
	"github.com/gauss-project/aurorafs/pkg/traversal"
	"github.com/gogo/protobuf/proto"
	"pgregory.net/rapid"
	"verifharness/internal/pstub"
)

// memChunks is a map-backed chunk store used to build the "remote" file whose
// pyramid an honest peer would send.
type memChunks struct {
	mu sync.Mutex
	m  map[string][]byte
}

func (s *memChunks) Put(_ context.Context, _ storage.ModePut, chs ...boson.Chunk) ([]bool, error) {
	s.mu.Lock()
	defer s.mu.Unlock()
	ex := make([]bool, len(chs))
	for i, c := range chs {
		k := c.Address().String()
		_, ex[i] = s.m[k]
		s.m[k] = append([]byte(nil), c.Data()...)
	}
	return ex, nil
}

func (s *memChunks) Get(_ context.Context, _ storage.ModeGet, a boson.Address) (boson.Chunk, error) {
	s.mu.Lock()
	defer s.mu.Unlock()
	d, ok := s.m[a.String()]
	if !ok {
		return nil, storage.ErrNotFound
	}
	return boson.NewChunk(a, append([]byte(nil), d...)), nil
}

type hashChunk struct {
	hash  []byte
	chunk []byte
}

var (
	remoteOnce    sync.Once
	remoteRoot    boson.Address // manifest reference of a file that is not in the local store
	remotePyramid []hashChunk   // its pyramid, sorted by hash (root first)
)

func remoteEnv() {
	remoteOnce.Do(func() {
		ctx := context.Background()
		mem := &memChunks{m: map[string][]byte{}}
		// two data chunks, so that the pyramid contains an intermediate chunk (the file's root)
		content := make([]byte, boson.ChunkSize+2000)
		for i := range content {
			content[i] = byte(i*13 + i/97)
		}
		ref := uploadWithManifest(mem, "r.bin", content)
		remoteRoot = ref
		py, err := traversal.New(mem).GetPyramid(ctx, ref)
		if err != nil {
			panic("harness: remote pyramid: " + err.Error())
		}
		for k, v := range py {
			h, _ := hex.DecodeString(k)
			remotePyramid = append(remotePyramid, hashChunk{h, v})
		}
		sort.Slice(remotePyramid, func(i, j int) bool {
			ri, rj := bytes.Equal(remotePyramid[i].hash, ref.Bytes()), bytes.Equal(remotePyramid[j].hash, ref.Bytes())
			if ri != rj {
				return ri
			}
			return bytes.Compare(remotePyramid[i].hash, remotePyramid[j].hash) < 0
		})
	})
}

// oracleStub: the chain resolver knows no source nodes.
type oracleStub struct{ chain.Resolver }

func (oracleStub) GetNodesFromCid([]byte) []boson.Address { return nil }

type ciEnv struct {
	ci      *chunkinfo.ChunkInfo
	ss      *pstub.ScriptedStreamer
	cancel  context.CancelFunc
	finding bool
}

// newChunkInfo builds a fresh ChunkInfo over the shared local store. Knobs:
//
//	registered: 0 nothing, 1 the local 2-chunk file is registered as fully present (as after an upload),
//	            2 only its first chunk is (a download in progress)
//	finding:    1 = a discovery for fileRoot is pending (FindChunkInfo running, queue exists)
//	connectfail, neighbors: routing answers
func newChunkInfo(c *kase) *ciEnv {
	ids()
	fileEnv()
	st := newStateStore()
	ss := pstub.NewScriptedStreamer(c.Replies...)
	rs := &routeStub{}
	if c.k("connectfail") == 1 {
		rs.connectErr = pstub.ErrScripted
	}
	if c.k("neighbors") == 1 {
		rs.neighbors = []boson.Address{otherID.overlay, other2ID.overlay}
	}
	ci := chunkinfo.New(nodeID.overlay, ss, logger, trav, st, ls, rs, oracleStub{}, nil, nopSubPub{})
	e := &ciEnv{ci: ci, ss: ss, cancel: func() {}}
	switch c.k("registered") {
	case 1:
		for _, ch := range fileChunks {
			_ = ci.OnChunkRetrieved(ch, fileRoot, nodeID.overlay)
		}
		_ = smallRoot
	case 2:
		_ = ci.OnChunkRetrieved(fileChunks[0], fileRoot, nodeID.overlay)
	}
	if c.k("finding") == 1 && c.k("registered") != 0 {
		gb := runtime.NumGoroutine()
		ctx, cancel := bg()
		done := make(chan struct{})
		go func() {
			defer close(done)
			ci.FindChunkInfo(ctx, nil, fileRoot, []boson.Address{peerID.overlay, otherID.overlay})
		}()
		e.cancel = func() { cancel(); <-done }
		e.finding = true
		deadline := time.Now().Add(3 * time.Second)
		for !ci.IsDiscover(fileRoot) && time.Now().Before(deadline) {
			time.Sleep(100 * time.Microsecond)
		}
		// let the goroutines FindChunkInfo spawned (queue processing, request sending) finish, so
		// that only FindChunkInfo itself is still waiting: the local getters below must not race
		// with them (that race is a local matter, not a remote input)
		settle(gb+1, 3*time.Second)
	}
	return e
}

// local-use phase: the getters and periodic functions the node itself runs
func (e *ciEnv) use(extraRoots ...boson.Address) {
	ci := e.ci
	// (every call below that needs the chunk order of a root re-traverses it: ~2 ms each)
	roots := append([]boson.Address{fileRoot}, extraRoots...)
	for _, r := range roots {
		_ = ci.GetChunkInfo(r, fileChunks[1])
		_ = ci.GetChunkInfoDiscoverOverlays(r)
		_ = ci.GetChunkInfoServerOverlays(r)
		_ = ci.IsDiscover(r)
		_ = ci.GetChunkInfoSource(r)
	}
	_ = ci.GetChunkPyramid(roots[len(roots)-1])
	for _, o := range []boson.Address{nodeID.overlay, peerID.overlay, otherID.overlay} {
		_, _ = ci.GetFileList(o)
	}
	ci.CancelFindChunkInfo(fileRoot)
	for _, r := range extraRoots {
		if e.finding && r.Equal(fileRoot) {
			continue // see below
		}
		ci.DelDiscover(r)
	}
	// Deleting the discovery queue of a root while the goroutine that FindChunkInfo spawned for it
	// may still be starting is a purely local race (queueProcess dereferences the deleted queue);
	// it is not a remote input, so the harness does not provoke it.
	if !e.finding {
		ci.DelDiscover(fileRoot)
	}
	_ = ci.DelFile(smallRoot, func() error { return nil })
}

// rootsNamedIn returns the RootCid fields of the (decodable) frames of a hostile stream:
// the local-use phase also asks the service about the roots the peer talked about.
func rootsNamedIn(b []byte, types []reflect.Type) []boson.Address {
	var out []boson.Address
	m, _ := decodeFrames(b, types)
	for _, x := range m {
		var r []byte
		switch v := x.(type) {
		case *cipb.ChunkInfoReq:
			r = v.RootCid
		case *cipb.ChunkInfoResp:
			r = v.RootCid
		case *cipb.ChunkPyramidReq:
			r = v.RootCid
		}
		if r != nil && len(out) < 2 {
			out = append(out, boson.NewAddress(r))
		}
	}
	return out
}

func ciPool() *pool {
	ids()
	fileEnv()
	remoteEnv()
	p := &pool{}
	p.addBytes(nodeID.overlay.Bytes(), nodeID.overlay.Bytes(), peerID.overlay.Bytes(), otherID.overlay.Bytes(),
		fileRoot.Bytes(), fileRoot.Bytes(), smallRoot.Bytes(), remoteRoot.Bytes(), fileChunks[0].Bytes(),
		[]byte{0x01}, []byte{0x02}, []byte{0x03}, []byte{0xff}, []byte{})
	p.addStrs(peerID.overlay.String(), peerID.overlay.String(), otherID.overlay.String(), nodeID.overlay.String())
	p.field("RootCid", fileRoot.Bytes(), fileRoot.Bytes(), smallRoot.Bytes(), remoteRoot.Bytes())
	p.field("Req", nodeID.overlay.Bytes(), nodeID.overlay.Bytes(), peerID.overlay.Bytes())
	p.field("Target", nodeID.overlay.Bytes(), peerID.overlay.Bytes(), peerID.overlay.Bytes(), otherID.overlay.Bytes())
	return p
}

func ciKnobs(t *rapid.T, c *kase) {
	knob(t, c, "registered", 2)
	knob(t, c, "finding", 1)
	knob(t, c, "connectfail", 3)
	knob(t, c, "neighbors", 1)
}

// ---- chunkinfo req handler ---------------------------------------------------------------------

var ciReqTypes = []reflect.Type{typ(&cipb.ChunkInfoReq{})}

var tgChunkInfoReq = register(&target{
	name:    "chunkinfo-req",
	inTypes: ciReqTypes,
	gen: func(t *rapid.T) kase {
		var c kase
		ciKnobs(t, &c)
		c.In, c.Gen = genStream(t, streamSpec{types: ciReqTypes, pool: ciPool(), honest: func(t *rapid.T) []proto.Message {
			return []proto.Message{&cipb.ChunkInfoReq{RootCid: fileRoot.Bytes(), Target: nodeID.overlay.Bytes(), Req: peerID.overlay.Bytes()}}
		}})
		return c
	},
	run: func(c *kase) []string {
		e := newChunkInfo(c)
		ctx, cancel := bg()
		defer cancel()
		g0 := runtime.NumGoroutine()
		st := pstub.NewByteStream(c.In)
		err := handlerOf(e.ci.Protocol(), "chunkinforeq")(ctx, peerOf(peerID), st)
		cls := []string{}
		if err != nil {
			cls = append(cls, "err")
		}
		if e.ss.NumCalls() > 0 {
			cls = append(cls, "sent-something")
		}
		settle(g0, 2*time.Second)
		e.use(rootsNamedIn(c.In, ciReqTypes)...)
		e.cancel()
		settle(g0, 2*time.Second)
		return cls
	},
})

func TestC37_ChunkInfoReq(t *testing.T) { check(t, tgChunkInfoReq, 120) }

// ---- chunkinfo resp handler --------------------------------------------------------------------

var ciRespTypes = []reflect.Type{typ(&cipb.ChunkInfoResp{})}

func ciRespOf(c *kase) *cipb.ChunkInfoResp {
	ids()
	fileEnv()
	m, _ := decodeFrames(c.In, ciRespTypes)
	if len(m) < 1 || m[0] == nil {
		return nil
	}
	return m[0].(*cipb.ChunkInfoResp)
}

func fixCiResp(c *kase, f func(r *cipb.ChunkInfoResp)) {
	m, rest := decodeFrames(c.In, ciRespTypes)
	f(m[0].(*cipb.ChunkInfoResp))
	c.In = encodeFrames(m, rest)
}

func isHexStr(s string) bool { _, err := hex.DecodeString(s); return err == nil }

// localChunkCount is the chunk count the node will compute for root (getChunkSize): the
// number of distinct data chunks of the traversal of root over the local store; 0 when the
// traversal fails. Any address present in the local store works as a "root" (a bare data
// chunk counts 1), so the count is computed the way the node computes it, on the same store.
func localChunkCount(root []byte) int {
	switch {
	case bytes.Equal(root, fileRoot.Bytes()):
		return 2
	case bytes.Equal(root, smallRoot.Bytes()):
		return 1
	}
	n := 0
	if pe := safe(func() {
		ctx, cancel := context.WithTimeout(context.Background(), 5*time.Second)
		defer cancel()
		hs, _, err := trav.GetChunkHashes(ctx, boson.NewAddress(root), nil)
		if err != nil {
			return
		}
		seen := map[string]struct{}{}
		for _, l := range hs {
			for _, h := range l {
				seen[string(h)] = struct{}{}
			}
		}
		n = len(seen)
	}); pe != nil {
		return 0
	}
	return n
}

// the presence entry of the answering node itself, if it is too short for the file
func shortSelfVector(r *cipb.ChunkInfoResp) (key string, short bool) {
	n := localChunkCount(r.RootCid)
	if n == 0 {
		return "", false
	}
	key = hex.EncodeToString(r.Target)
	v, ok := r.Presence[key]
	return key, ok && v != nil && len(v)*8 < n
}

var tgChunkInfoResp = register(&target{
	name:    "chunkinfo-resp",
	inTypes: ciRespTypes,
	gen: func(t *rapid.T) kase {
		var c kase
		ciKnobs(t, &c)
		c.In, c.Gen = genStream(t, streamSpec{types: ciRespTypes, pool: ciPool(), honest: func(t *rapid.T) []proto.Message {
			pres := map[string][]byte{peerID.overlay.String(): {byte(rapid.IntRange(0, 3).Draw(t, "bv"))}}
			if rapid.Bool().Draw(t, "more") {
				pres[otherID.overlay.String()] = []byte{byte(rapid.IntRange(0, 3).Draw(t, "bv2"))}
			}
			return []proto.Message{&cipb.ChunkInfoResp{RootCid: fileRoot.Bytes(), Target: peerID.overlay.Bytes(), Req: nodeID.overlay.Bytes(), Presence: pres}}
		}})
		return c
	},
	run: func(c *kase) []string {
		e := newChunkInfo(c)
		ctx, cancel := bg()
		defer cancel()
		g0 := runtime.NumGoroutine()
		st := pstub.NewByteStream(c.In)
		err := handlerOf(e.ci.Protocol(), "chunkinforesp")(ctx, peerOf(peerID), st)
		cls := []string{}
		if err != nil {
			cls = append(cls, "err")
		}
		if len(e.ci.GetChunkInfoDiscoverOverlays(fileRoot)) > 0 {
			cls = append(cls, "discover-entry-created")
		}
		if c.k("finding") == 1 && c.k("registered") != 0 {
			cls = append(cls, "with-pending-find")
		}
		settle(g0, 2*time.Second)
		e.use(rootsNamedIn(c.In, ciRespTypes)...)
		e.cancel()
		settle(g0, 2*time.Second)
		return cls
	},
	shapes: []shape{
		{
			// updateChunkInfo runs on chunkinfo's discover worker goroutine: the process dies
			sig:   "C37/chunkinfo-resp-short-bitvector",
			child: true,
			match: func(c *kase) bool {
				r := ciRespOf(c)
				if r == nil || !bytes.Equal(r.Req, nodeID.overlay.Bytes()) {
					return false
				}
				_, short := shortSelfVector(r)
				return short
			},
			fix: func(c *kase) {
				fixCiResp(c, func(r *cipb.ChunkInfoResp) { k, _ := shortSelfVector(r); r.Presence[k] = []byte{0x00} })
			},
			witness: func() kase {
				ids()
				fileEnv()
				return kase{Target: "chunkinfo-resp", Gen: "witness", In: pstub.Frame(mustMarshal(&cipb.ChunkInfoResp{
					RootCid: fileRoot.Bytes(), Target: peerID.overlay.Bytes(), Req: nodeID.overlay.Bytes(),
					Presence: map[string][]byte{peerID.overlay.String(): {}}}))}
			},
		},
		{
			sig: "C37/chunkinfo-resp-nonhex-presence-key",
			match: func(c *kase) bool {
				r := ciRespOf(c)
				if r == nil || !bytes.Equal(r.Req, nodeID.overlay.Bytes()) || !bytes.Equal(r.RootCid, fileRoot.Bytes()) {
					return false
				}
				if !(c.k("finding") == 1 && c.k("registered") != 0) {
					return false // no queue for the root: the keys are not parsed
				}
				for k := range r.Presence {
					if !isHexStr(k) {
						return true
					}
				}
				return false
			},
			fix: func(c *kase) {
				fixCiResp(c, func(r *cipb.ChunkInfoResp) {
					for k, v := range r.Presence {
						if !isHexStr(k) {
							delete(r.Presence, k)
							r.Presence[hex.EncodeToString([]byte(k))] = v
						}
					}
				})
			},
			witness: func() kase {
				ids()
				fileEnv()
				return kase{Target: "chunkinfo-resp", Gen: "witness", K: map[string]int{"registered": 2, "finding": 1},
					In: pstub.Frame(mustMarshal(&cipb.ChunkInfoResp{RootCid: fileRoot.Bytes(), Target: peerID.overlay.Bytes(), Req: nodeID.overlay.Bytes(),
						Presence: map[string][]byte{"not-hex": {0x01}}}))}
			},
		},
	},
})

func TestC37_ChunkInfoResp(t *testing.T) { check(t, tgChunkInfoResp, 200) }

// ---- pyramid handler -----------------------------------------------------------------------------

var ciPyReqTypes = []reflect.Type{typ(&cipb.ChunkPyramidReq{})}
var ciPyRespTypes = []reflect.Type{typ(&cipb.ChunkPyramidResp{})}

func honestPyramidFrames() []proto.Message {
	remoteEnv()
	var out []proto.Message
	for _, hc := range remotePyramid {
		out = append(out, &cipb.ChunkPyramidResp{Hash: hc.hash, Chunk: hc.chunk})
	}
	return append(out, &cipb.ChunkPyramidResp{Ok: true})
}

// genPyramidReply: hostile pyramid stream. Besides the three generic generators it
// re-seals mutated chunks (Hash := BMT address of Chunk) so that the content checks
// behind the hash check are reached with malformed spans, references and manifests.
func genPyramidReply(t *rapid.T) ([]byte, string) {
	p := ciPool()
	for _, hc := range remotePyramid {
		p.addBytes(hc.hash, hc.chunk)
	}
	b, g := genStream(t, streamSpec{types: ciPyRespTypes, pool: p, honest: func(*rapid.T) []proto.Message { return honestPyramidFrames() }})
	if rapid.IntRange(0, 5).Draw(t, "zeroext") == 0 {
		// hash-preserving change of an honest pyramid: the BMT pads with zeros, so appending zero
		// bytes to a chunk (or cutting trailing zeros) keeps its address valid
		h := honestPyramidFrames()
		k := rapid.IntRange(0, len(h)-2).Draw(t, "zeroext-frame")
		r := h[k].(*cipb.ChunkPyramidResp)
		n := rapid.SampledFrom([]int{1, 5, 31, 32, 33, 64, 100}).Draw(t, "zeroext-n")
		r.Chunk = append(append([]byte(nil), r.Chunk...), make([]byte, n)...)
		return encodeFrames(h, nil), "zero-extended"
	}
	if g == "raw" || rapid.IntRange(0, 2).Draw(t, "reseal") == 0 {
		return b, g
	}
	m, rest := decodeFrames(b, ciPyRespTypes)
	for i := range m {
		if m[i] == nil {
			return b, g
		}
	}
	for _, x := range m {
		r := x.(*cipb.ChunkPyramidResp)
		if ch, err := cac.NewWithDataSpan(r.Chunk); err == nil {
			r.Hash = ch.Address().Bytes()
		}
	}
	// make sure the stream terminates with Ok most of the time
	if len(m) > 0 && !m[len(m)-1].(*cipb.ChunkPyramidResp).Ok && rapid.IntRange(0, 3).Draw(t, "addok") != 0 {
		m = append(m, &cipb.ChunkPyramidResp{Ok: true})
	}
	return encodeFrames(m, rest), g + "-resealed"
}

// subtrieSpins reproduces the loop of joiner.subtrieSection (int64 arithmetic included)
// to decide whether it can terminate for a chunk payload of dataLen bytes that
// declares span: once branchSize has overflowed to 0 the loop never ends.
func subtrieSpins(dataLen int, span int64) bool {
	if span <= int64(dataLen) {
		return false // treated as a leaf (negative spans end up here too)
	}
	if dataLen == 0 {
		// no reference to follow: every joiner.Read returns (0, nil) and file.JoinReadAll
		// iterates span/ChunkSize times doing nothing; from 2^34 on that is >= 65536 idle
		// rounds and grows to "forever" (2^63 / 2^18 rounds)
		return span >= 1<<34
	}
	refs := int64(dataLen / 32)
	branching := int64(boson.ChunkSize / 32)
	branchSize := int64(boson.ChunkSize)
	for i := 0; i < 64; i++ {
		whatsLeft := span - branchSize*(refs-1)
		if whatsLeft <= branchSize {
			return false
		}
		branchSize *= branching
		if branchSize == 0 {
			return true
		}
	}
	return true
}

func chunkSpins(chunk []byte) bool {
	if len(chunk) < 8 {
		return false
	}
	return subtrieSpins(len(chunk)-8, int64(binary.LittleEndian.Uint64(chunk[:8])))
}

func pyramidReplySpins(c *kase) bool {
	for _, r := range c.Replies {
		m, _ := decodeFrames(r, ciPyRespTypes)
		for _, x := range m {
			if x != nil && chunkSpins(x.(*cipb.ChunkPyramidResp).Chunk) {
				return true
			}
		}
	}
	return false
}

// the repair turns the chunk into a leaf (span = payload length) and re-seals it if it was sealed
func fixPyramidReplySpins(c *kase) {
	for i, r := range c.Replies {
		m, rest := decodeFrames(r, ciPyRespTypes)
		changed := false
		for _, x := range m {
			if x == nil {
				continue
			}
			pr := x.(*cipb.ChunkPyramidResp)
			if chunkSpins(pr.Chunk) {
				sealed := false
				if ch, err := cac.NewWithDataSpan(pr.Chunk); err == nil && bytes.Equal(ch.Address().Bytes(), pr.Hash) {
					sealed = true
				}
				binary.LittleEndian.PutUint64(pr.Chunk[:8], uint64(len(pr.Chunk)-8))
				if sealed {
					if ch, err := cac.NewWithDataSpan(pr.Chunk); err == nil {
						pr.Hash = ch.Address().Bytes()
					}
				}
				changed = true
			}
		}
		if changed {
			// frames that did not decode are dropped by encodeFrames; keep them out of the way
			c.Replies[i] = encodeFrames(m, rest)
		}
	}
}

// an intermediate chunk (span > payload) whose payload is not a whole number of 32-byte references
func chunkRagged(chunk []byte) bool {
	if len(chunk) < 8 {
		return false
	}
	span := int64(binary.LittleEndian.Uint64(chunk[:8]))
	n := len(chunk) - 8
	return span > int64(n) && n%32 != 0
}

func pyramidReplyRagged(c *kase) bool {
	for _, r := range c.Replies {
		m, _ := decodeFrames(r, ciPyRespTypes)
		for _, x := range m {
			if x != nil && chunkRagged(x.(*cipb.ChunkPyramidResp).Chunk) {
				return true
			}
		}
	}
	return false
}

// the repair cuts the payload down to whole references and re-seals the chunk if it was sealed
func fixPyramidReplyRagged(c *kase) {
	for i, r := range c.Replies {
		m, rest := decodeFrames(r, ciPyRespTypes)
		changed := false
		for _, x := range m {
			if x == nil {
				continue
			}
			pr := x.(*cipb.ChunkPyramidResp)
			if chunkRagged(pr.Chunk) {
				sealed := false
				if ch, err := cac.NewWithDataSpan(pr.Chunk); err == nil && bytes.Equal(ch.Address().Bytes(), pr.Hash) {
					sealed = true
				}
				pr.Chunk = pr.Chunk[:8+(len(pr.Chunk)-8)/32*32]
				if sealed {
					if ch, err := cac.NewWithDataSpan(pr.Chunk); err == nil {
						pr.Hash = ch.Address().Bytes()
					}
				}
				changed = true
			}
		}
		if changed {
			c.Replies[i] = encodeFrames(m, rest)
		}
	}
}

func raggedShape(target string) shape {
	return shape{
		sig: "C37/pyramid-intermediate-chunk-ragged",
		// The panic unwinds through traversal.GetChunkHashes' deferred function, which (err still
		// being nil) stores the hostile pyramid in the local store: every later traversal of that
		// root in the same process panics again, on a service goroutine. The witness therefore
		// runs in a child process and takes its poisoned store with it.
		child: true,
		match: pyramidReplyRagged,
		fix:   fixPyramidReplyRagged,
		witness: func() kase {
			ids()
			remoteEnv()
			// the honest pyramid with 5 zero bytes appended to the file's intermediate root chunk
			h := honestPyramidFrames()
			for _, x := range h {
				r := x.(*cipb.ChunkPyramidResp)
				if len(r.Chunk) >= 8 && int64(binary.LittleEndian.Uint64(r.Chunk[:8])) > int64(boson.ChunkSize) {
					r.Chunk = append(append([]byte(nil), r.Chunk...), 0, 0, 0, 0, 0)
				}
			}
			return kase{Target: target, Gen: "witness", K: map[string]int{"rootsel": 0}, Replies: [][]byte{encodeFrames(h, nil)},
				In: pstub.Frame(mustMarshal(&cipb.ChunkPyramidReq{RootCid: remoteRoot.Bytes(), Target: otherID.overlay.Bytes()}))}
		},
	}
}

func spinShape(target string) shape {
	return shape{
		sig:   "C37/pyramid-chunk-span-spin",
		hang:  true,
		match: pyramidReplySpins,
		fix:   fixPyramidReplySpins,
		witness: func() kase {
			ids()
			// a 5-byte payload that declares a span of 100: a valid content-addressed chunk
			chunk := append([]byte{100, 0, 0, 0, 0, 0, 0, 0}, []byte("hello")...)
			ch, _ := cac.NewWithDataSpan(chunk)
			reply := encodeFrames([]proto.Message{&cipb.ChunkPyramidResp{Hash: ch.Address().Bytes(), Chunk: chunk}, &cipb.ChunkPyramidResp{Ok: true}}, nil)
			return kase{Target: target, Gen: "witness", K: map[string]int{"rootsel": 1}, Replies: [][]byte{reply},
				In: pstub.Frame(mustMarshal(&cipb.ChunkPyramidReq{RootCid: ch.Address().Bytes(), Target: otherID.overlay.Bytes()}))}
		},
	}
}

// rootOfReply: the root a case asks for. rootsel 0: the honest remote root,
// 1: the hash of the first chunk the peer sends (so hostile pyramids are self-consistent), 2: a local root
func rootOfReply(c *kase, reply []byte) boson.Address {
	switch c.k("rootsel") {
	case 1:
		m, _ := decodeFrames(reply, ciPyRespTypes)
		if len(m) > 0 && m[0] != nil {
			return boson.NewAddress(m[0].(*cipb.ChunkPyramidResp).Hash)
		}
	case 2:
		return fileRoot
	}
	return remoteRoot
}

var tgChunkInfoPyramid = register(&target{
	name:    "chunkinfo-pyramid",
	inTypes: ciPyReqTypes,
	reTypes: ciPyRespTypes,
	gen: func(t *rapid.T) kase {
		var c kase
		ciKnobs(t, &c)
		c.In, c.Gen = genStream(t, streamSpec{types: ciPyReqTypes, pool: ciPool(), honest: func(t *rapid.T) []proto.Message {
			root := rapid.SampledFrom([][]byte{fileRoot.Bytes(), smallRoot.Bytes(), remoteRoot.Bytes(), remoteRoot.Bytes()}).Draw(t, "root")
			tgt := rapid.SampledFrom([][]byte{nodeID.overlay.Bytes(), otherID.overlay.Bytes()}).Draw(t, "tgt")
			return []proto.Message{&cipb.ChunkPyramidReq{RootCid: root, Target: tgt}}
		}})
		r, _ := genPyramidReply(t)
		c.Replies = [][]byte{r}
		return c
	},
	run: func(c *kase) []string {
		remoteEnv()
		e := newChunkInfo(c)
		ctx, cancel := bg()
		defer cancel()
		g0 := runtime.NumGoroutine()
		st := pstub.NewByteStream(c.In)
		err := handlerOf(e.ci.Protocol(), "chunkpyramid")(ctx, peerOf(peerID), st)
		cls := []string{}
		if err != nil {
			cls = append(cls, "err")
		} else if len(st.Written()) > 4 {
			cls = append(cls, "served-pyramid")
		}
		if e.ss.NumCalls() > 0 {
			cls = append(cls, "forwarded")
		}
		settle(g0, 2*time.Second)
		e.use(append(rootsNamedIn(c.In, ciPyReqTypes), remoteRoot)...)
		e.cancel()
		settle(g0, 2*time.Second)
		return cls
	},
	shapes: []shape{spinShape("chunkinfo-pyramid"), raggedShape("chunkinfo-pyramid")},
})

func TestC37_ChunkInfoPyramid(t *testing.T) { check(t, tgChunkInfoPyramid, 120) }

// ---- pyramid client (sendPyramid reader -> onChunkPyramidResp -> traversal) ----------------------

var tgChunkInfoPyramidClient = register(&target{
	name:    "chunkinfo-sendPyramid",
	reTypes: ciPyRespTypes,
	client:  true,
	gen: func(t *rapid.T) kase {
		var c kase
		knob(t, &c, "rootsel", 2)
		knob(t, &c, "connectfail", 5)
		knob(t, &c, "neighbors", 1)
		r, g := genPyramidReply(t)
		c.Replies, c.Gen = [][]byte{r}, g
		return c
	},
	run: func(c *kase) []string {
		remoteEnv()
		e := newChunkInfo(c)
		g0 := runtime.NumGoroutine()
		var reply []byte
		if len(c.Replies) > 0 {
			reply = c.Replies[0]
		}
		root := rootOfReply(c, reply)
		// what retrieval does after it received a chunk of root from peer
		err := e.ci.OnChunkRetrieved(root, root, peerID.overlay)
		cls := []string{}
		if err != nil {
			cls = append(cls, "err")
		} else {
			cls = append(cls, "pyramid-accepted")
		}
		e.use(root, remoteRoot)
		_ = e.ci.DelFile(root, func() error { return nil })
		e.cancel()
		settle(g0, 2*time.Second)
		return cls
	},
	shapes: []shape{spinShape("chunkinfo-sendPyramid"), raggedShape("chunkinfo-sendPyramid")},
})

func TestC37_ChunkInfoPyramidClient(t *testing.T) { check(t, tgChunkInfoPyramidClient, 200) }

// ---- chunkinforesp sessions: several responses about one file from one peer, each on its own
// stream, delivered to the SAME service instance (state created by one message is used by the next)

var tgChunkInfoRespSession = register(&target{
	name:    "chunkinfo-resp-session",
	inTypes: ciRespTypes,
	gen: func(t *rapid.T) kase {
		var c kase
		ciKnobs(t, &c)
		// no pending find: with one, a second response blocks the handler for ever on the find's
		// one-slot result channel (a handler-goroutine leak, not a crash: outside this property, and it
		// would wedge the harness)
		if c.K != nil {
			c.K["finding"] = 0
		}
		n := rapid.IntRange(2, 4).Draw(t, "messages")
		mk := func(i int) []byte {
			over := peerID.overlay
			if rapid.IntRange(0, 4).Draw(t, fmt.Sprintf("other%d", i)) == 0 {
				over = otherID.overlay
			}
			// vector lengths around what the file needs: shorter, exact, longer
			vec := rapid.SliceOfN(rapid.Byte(), 0, 5).Draw(t, fmt.Sprintf("vec%d", i))
			return pstub.Frame(mustMarshal(&cipb.ChunkInfoResp{RootCid: fileRoot.Bytes(), Target: over.Bytes(), Req: nodeID.overlay.Bytes(),
				Presence: map[string][]byte{over.String(): vec}}))
		}
		c.In = mk(0)
		for i := 1; i < n; i++ {
			c.Replies = append(c.Replies, mk(i))
		}
		c.Gen = "framed"
		return c
	},
	run: func(c *kase) []string {
		e := newChunkInfo(c)
		ctx, cancel := bg()
		defer cancel()
		g0 := runtime.NumGoroutine()
		cls := []string{"session"}
		for i, in := range append([][]byte{c.In}, c.Replies...) {
			st := pstub.NewByteStream(in)
			if err := handlerOf(e.ci.Protocol(), "chunkinforesp")(ctx, peerOf(peerID), st); err != nil {
				cls = append(cls, "err")
			}
			settle(g0, 150*time.Millisecond)
			_ = i
		}
		if len(e.ci.GetChunkInfoDiscoverOverlays(fileRoot)) > 0 {
			cls = append(cls, "discover-entry-created")
		}
		e.use(rootsNamedIn(c.In, ciRespTypes)...)
		e.cancel()
		settle(g0, 2*time.Second)
		return cls
	},
	nt: func(c *kase) bool { return len(c.Replies) > 0 },
})

func TestC37_ChunkInfoRespSession(t *testing.T) { check(t, tgChunkInfoRespSession, 200) }
