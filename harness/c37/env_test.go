package c37

import (
	"context"
	"crypto/ecdsa"
	"io"
	"sync"

	"github.com/gauss-project/aurorafs/pkg/addressbook"
	"github.com/gauss-project/aurorafs/pkg/aurora"
	"github.com/gauss-project/aurorafs/pkg/boson"
	"github.com/gauss-project/aurorafs/pkg/crypto"
	"github.com/gauss-project/aurorafs/pkg/logging"
	"github.com/gauss-project/aurorafs/pkg/p2p"
	statestore "github.com/gauss-project/aurorafs/pkg/statestore/leveldb"
	"github.com/gauss-project/aurorafs/pkg/storage"
	"github.com/gauss-project/aurorafs/pkg/subscribe"
	libp2pcrypto "github.com/libp2p/go-libp2p-core/crypto"
	libp2ppeer "github.com/libp2p/go-libp2p-core/peer"
	ma "github.com/multiformats/go-multiaddr"
)

const networkID uint64 = 7

var logger = logging.New(io.Discard, 0)

// identity is a deterministic node identity (key, overlay, underlay, signed address).
type identity struct {
	key      *ecdsa.PrivateKey
	signer   crypto.Signer
	overlay  boson.Address
	peerID   libp2ppeer.ID
	underlay ma.Multiaddr // without /p2p
	fullMA   ma.Multiaddr // with /p2p/<id>
	addr     *aurora.Address
}

func mustMA(s string) ma.Multiaddr {
	m, err := ma.NewMultiaddr(s)
	if err != nil {
		panic("harness: multiaddr " + s + ": " + err.Error())
	}
	return m
}

func newIdentity(tag byte, ip string) *identity {
	kb := make([]byte, 32)
	for i := range kb {
		kb[i] = tag
	}
	k := crypto.Secp256k1PrivateKeyFromBytes(kb)
	s := crypto.NewDefaultSigner(k)
	ov, err := crypto.NewOverlayAddress(k.PublicKey, networkID)
	if err != nil {
		panic("harness: overlay: " + err.Error())
	}
	lk, err := libp2pcrypto.UnmarshalSecp256k1PrivateKey(kb)
	if err != nil {
		panic("harness: libp2p key: " + err.Error())
	}
	id, err := libp2ppeer.IDFromPrivateKey(lk)
	if err != nil {
		panic("harness: peer id: " + err.Error())
	}
	pid := id.Pretty()
	i := &identity{key: k, signer: s, overlay: ov, peerID: id}
	i.underlay = mustMA("/ip4/" + ip + "/tcp/7070")
	i.fullMA = mustMA("/ip4/" + ip + "/tcp/7070/p2p/" + pid)
	a, err := aurora.NewAddress(s, i.fullMA, ov, networkID)
	if err != nil {
		panic("harness: aurora address: " + err.Error())
	}
	i.addr = a
	return i
}

var (
	idOnce   sync.Once
	nodeID   *identity // the node under test
	peerID   *identity // the remote peer (authenticated by the handshake, so its overlay is not hostile)
	otherID  *identity // a third node
	other2ID *identity
)

func ids() {
	idOnce.Do(func() {
		nodeID = newIdentity(0x11, "8.8.1.1")
		peerID = newIdentity(0x22, "8.8.2.2")
		otherID = newIdentity(0x33, "8.8.3.3")
		other2ID = newIdentity(0x44, "10.0.0.4")
	})
}

func fullMode() aurora.Model { return aurora.NewModel().SetMode(aurora.FullNode) }

func peerOf(i *identity) p2p.Peer { return p2p.Peer{Address: i.overlay, Mode: fullMode()} }

// The real in-memory leveldb state store costs ~100 ms to open (goleveldb clears a
// large arena), so one store is opened per process and wiped before every case.
// Cases run one at a time (no t.Parallel anywhere in this package).
var (
	storeOnce sync.Once
	theStore  storage.StateStorer
	baseKeys  map[string]struct{}
)

func newStateStore() storage.StateStorer {
	storeOnce.Do(func() {
		s, err := statestore.NewInMemoryStateStore(logger)
		if err != nil {
			panic("harness: state store: " + err.Error())
		}
		theStore = s
		baseKeys = map[string]struct{}{}
		_ = s.Iterate("", func(k, _ []byte) (bool, error) { baseKeys[string(k)] = struct{}{}; return false, nil })
	})
	var keys []string
	_ = theStore.Iterate("", func(k, _ []byte) (bool, error) {
		if _, ok := baseKeys[string(k)]; !ok {
			keys = append(keys, string(k))
		}
		return false, nil
	})
	for _, k := range keys {
		_ = theStore.Delete(k)
	}
	return noClose{theStore}
}

// noClose keeps the shared store open when a service or a case closes "its" store.
type noClose struct{ storage.StateStorer }

func (noClose) Close() error { return nil }

func newAddressBook(s storage.StateStorer, known ...*identity) addressbook.Interface {
	ab := addressbook.New(s)
	for _, k := range known {
		if err := ab.Put(k.overlay, *k.addr); err != nil {
			panic("harness: addressbook put: " + err.Error())
		}
	}
	return ab
}

// nopSubPub is a subscribe.SubPub without goroutines: publications go nowhere.
type nopSubPub struct{}

func (nopSubPub) Subscribe(subscribe.INotifier, string, string, string) error { return nil }
func (nopSubPub) Publish(string, string, string, interface{}) error           { return nil }
func (nopSubPub) PublishArray(string, string, string, []interface{}) error    { return nil }

var _ subscribe.SubPub = nopSubPub{}

// handlerOf finds a stream handler in a protocol spec by stream name.
func handlerOf(spec p2p.ProtocolSpec, stream string) p2p.HandlerFunc {
	for _, s := range spec.StreamSpecs {
		if s.Name == stream {
			return s.Handler
		}
	}
	panic("harness: no stream " + stream + " in protocol " + spec.Name)
}

func bg() (context.Context, context.CancelFunc) { return context.WithCancel(context.Background()) }

// useAddressBook reads back everything the address book holds (local-use phase).
func useAddressBook(ab addressbook.Interface) {
	ovs, _ := ab.Overlays()
	for _, o := range ovs {
		a, err := ab.Get(o)
		if err == nil && a != nil {
			_ = a.String()
			_ = a.ShortString()
			_, _ = a.MarshalJSON()
		}
	}
	as, _ := ab.Addresses()
	for i := range as {
		_ = as[i].String()
	}
}
