package c37

import (
	"bytes"
	"context"
	"errors"
	"reflect"
	"runtime"
	"sync"
	"testing"
	"time"

	"github.com/gauss-project/aurorafs/pkg/addressbook"
	"github.com/gauss-project/aurorafs/pkg/aurora"
	"github.com/gauss-project/aurorafs/pkg/boson"
	"github.com/gauss-project/aurorafs/pkg/p2p"
	p2pmock "github.com/gauss-project/aurorafs/pkg/p2p/mock"
	"github.com/gauss-project/aurorafs/pkg/pingpong"
	"github.com/gauss-project/aurorafs/pkg/routetab"
	rtpb "github.com/gauss-project/aurorafs/pkg/routetab/pb"
	"github.com/gauss-project/aurorafs/pkg/storage"
	"github.com/gauss-project/aurorafs/pkg/topology/lightnode"
	"github.com/gogo/protobuf/proto"
	"pgregory.net/rapid"
	"verifharness/internal/pstub"
)

// ---- a p2p.Service that does what libp2p.Service does with relayed streams --------------------
//
// pkg/p2p/libp2p does not build in the pinned tree, so CallHandler and
// CallHandlerWithConnChain are reproduced here from libp2p.go up to the point
// where they dispatch into a protocol handler (protocol table: pingpong only).
// The message parsing itself stays in the real routetab.PackRelayResp.

type vstream struct {
	ctx  context.Context
	real p2p.Stream
	r    *p2p.ReaderChan
	w    *p2p.WriterChan
	done chan struct{}
	mu   sync.Mutex
	buf  []byte
}

func newVStream(ctx context.Context, s p2p.Stream) *vstream {
	return &vstream{ctx: ctx, real: s,
		r:    &p2p.ReaderChan{R: make(chan []byte, 4096), Err: make(chan error, 4)},
		w:    &p2p.WriterChan{W: make(chan []byte, 1), Err: make(chan error, 1)},
		done: make(chan struct{})}
}

func (v *vstream) Read(p []byte) (int, error) {
	v.mu.Lock()
	defer v.mu.Unlock()
	if len(v.buf) == 0 {
		select {
		case b := <-v.r.R:
			v.buf = b
		case err := <-v.r.Err:
			if err == nil {
				err = errors.New("vstream closed")
			}
			return 0, err
		case <-v.ctx.Done():
			return 0, v.ctx.Err()
		}
	}
	n := copy(p, v.buf)
	v.buf = v.buf[n:]
	return n, nil
}
func (v *vstream) Write(p []byte) (int, error) {
	select {
	case v.w.W <- append([]byte(nil), p...):
	case <-v.ctx.Done():
		return 0, v.ctx.Err()
	}
	select {
	case err := <-v.w.Err:
		if err != nil {
			return 0, err
		}
	case <-v.ctx.Done():
		return 0, v.ctx.Err()
	}
	return len(p), nil
}
func (v *vstream) Close() error                 { return nil }
func (v *vstream) FullClose() error             { return nil }
func (v *vstream) Reset() error                 { return v.real.Reset() }
func (v *vstream) Headers() p2p.Headers         { return v.real.Headers() }
func (v *vstream) ResponseHeaders() p2p.Headers { return v.real.ResponseHeaders() }
func (v *vstream) UpdateStatRealStreamClosed()  {}
func (v *vstream) Reader() *p2p.ReaderChan      { return v.r }
func (v *vstream) Writer() *p2p.WriterChan      { return v.w }
func (v *vstream) Done() chan struct{}          { return v.done }
func (v *vstream) RealStream() p2p.Stream       { return v.real }

var _ p2p.VirtualStream = (*vstream)(nil)

type relayP2P struct {
	*p2pmock.Service
	self  boson.Address
	route routetab.RelayStream
	specs []p2p.ProtocolSpec
}

func (s *relayP2P) handler(name, version, stream string) (p2p.HandlerFunc, error) {
	for _, sp := range s.specs {
		if sp.Name == name && sp.Version == version {
			for _, ss := range sp.StreamSpecs {
				if ss.Name == stream {
					return ss.Handler, nil
				}
			}
		}
	}
	return nil, errors.New("protocol not supported")
}

func (s *relayP2P) CallHandlerWithConnChain(ctx context.Context, last, src p2p.Peer, stream p2p.Stream, name, version, streamName string) error {
	h, err := s.handler(name, version, streamName)
	if err != nil {
		return err
	}
	if _, err := stream.Write([]byte("ack")); err != nil {
		return err
	}
	return h(ctx, src, stream)
}

func (s *relayP2P) CallHandler(ctx context.Context, last p2p.Peer, stream p2p.Stream) (relayData *rtpb.RouteRelayReq, w *p2p.WriterChan, r *p2p.ReaderChan, forward bool, err error) {
	defer func() {
		if relayData == nil {
			return
		}
		if bytes.Equal(relayData.Dest, s.self.Bytes()) {
			forward = false
		} else if err != nil {
			forward = true
		}
	}()
	reqCh := make(chan *rtpb.RouteRelayReq, 1)
	vst := newVStream(ctx, stream)
	w, r = vst.w, vst.r
	s.route.PackRelayResp(ctx, vst, reqCh)
	select {
	case relayData = <-reqCh:
		if relayData == nil {
			return
		}
		if !relayData.MidCall && !bytes.Equal(relayData.Dest, s.self.Bytes()) {
			forward = true
			return
		}
	case <-ctx.Done():
		err = ctx.Err()
		return
	}
	md, err := aurora.NewModelFromBytes(relayData.SrcMode)
	if err != nil {
		return
	}
	src := p2p.Peer{Address: boson.NewAddress(relayData.Src), Mode: md}
	h, err := s.handler(string(relayData.ProtocolName), string(relayData.ProtocolVersion), string(relayData.StreamName))
	if err != nil {
		return
	}
	err = h(ctx, src, vst)
	return
}

// ---- routetab environment --------------------------------------------------------------------

type rtEnv struct {
	svc    *routetab.Service
	ss     *pstub.ScriptedStreamer
	ab     addressbook.Interface
	st     storage.StateStorer
	cancel context.CancelFunc
	p2ps   *relayP2P
}

var farAddr = addr32(0x5a) // a node that is not connected

func newRoutetab(c *kase) *rtEnv {
	kad, ab := envKad() // wipes the shared store, re-puts the connected peers' addresses
	st := noClose{theStore}
	ss := pstub.NewScriptedStreamer(c.Replies...)
	ctx, cancel := bg()
	p2ps := &relayP2P{Service: p2pmock.New(), self: nodeID.overlay}
	svc := routetab.New(nodeID.overlay, ctx, p2ps, ss, ab, networkID, lightnode.NewContainer(nodeID.overlay), kad, st, logger, routetab.Options{})
	p2ps.route = svc
	p2ps.specs = []p2p.ProtocolSpec{pingpong.New(ss, logger, nil).Protocol()}
	return &rtEnv{svc: svc, ss: ss, ab: ab, st: st, cancel: cancel, p2ps: p2ps}
}

// shortCtx bounds the waits for network answers that never come (FindRoute waits
// up to 3 s for a route response): the stub network has already said everything.
func shortCtx() (context.Context, context.CancelFunc) {
	return context.WithTimeout(context.Background(), 40*time.Millisecond)
}

func (e *rtEnv) use(dests ...[]byte) {
	ctx, cancel := shortCtx()
	defer cancel()
	all := append([][]byte{farAddr, peerID.overlay.Bytes(), otherID.overlay.Bytes()}, dests...)
	tab := e.svc.VerifTable()
	for _, d := range all {
		a := boson.NewAddress(d)
		ps, _ := e.svc.GetRoute(ctx, a)
		for _, p := range ps {
			for _, it := range p.Items {
				_ = it.String()
			}
		}
		_ = tab.GetNextHop(a)
		_ = e.svc.IsNeighbor(a)
	}
	useAddressBook(e.ab)
	// restart: a new service over the same store resumes the persisted routes and paths
	ctx2, cancel2 := bg()
	svc2 := routetab.New(nodeID.overlay, ctx2, e.p2ps, e.ss, e.ab, networkID, lightnode.NewContainer(nodeID.overlay), sharedKad, e.st, logger, routetab.Options{})
	for _, d := range all {
		_, _ = svc2.GetRoute(ctx, boson.NewAddress(d))
		_ = svc2.VerifTable().GetNextHop(boson.NewAddress(d))
	}
	svc2.VerifTable().Gc(0)
	cancel2()
	for _, d := range all {
		_ = e.svc.DelRoute(ctx, boson.NewAddress(d))
	}
	tab.Gc(0)
}

// destsNamedIn: destinations and path items the hostile message talked about (at most 4);
// the local-use phase asks the route table about them as well.
func destsNamedIn(b []byte, types []reflect.Type) [][]byte {
	var out [][]byte
	add := func(x []byte) {
		if len(out) < 4 {
			out = append(out, x)
		}
	}
	m, _ := decodeFrames(b, types)
	for _, x := range m {
		switch v := x.(type) {
		case *rtpb.RouteReq:
			add(v.Dest)
			for _, p := range v.Paths {
				for _, it := range p.Items {
					add(it)
				}
			}
		case *rtpb.RouteResp:
			add(v.Dest)
			for _, p := range v.Paths {
				for _, it := range p.Items {
					add(it)
				}
			}
		case *rtpb.RouteRelayReq:
			add(v.Dest)
			add(v.Src)
		}
	}
	return out
}

func rtPool() *pool {
	ids()
	p := &pool{}
	p.addBytes(nodeID.overlay.Bytes(), peerID.overlay.Bytes(), otherID.overlay.Bytes(), other2ID.overlay.Bytes(), farAddr, addr32(0x5b),
		make([]byte, 8), make([]byte, 32))
	for _, i := range []*identity{otherID, other2ID} {
		u, _ := i.fullMA.MarshalBinary()
		p.addBytes(u, i.addr.Signature)
	}
	p.field("Dest", farAddr, farAddr, nodeID.overlay.Bytes(), otherID.overlay.Bytes(), addr32(0x5b))
	p.field("Src", peerID.overlay.Bytes(), addr32(0x5b))
	p.field("SrcMode", []byte{1}, []byte{0}, []byte{3})
	p.field("ProtocolName", []byte("pingpong"), []byte("router"))
	p.field("ProtocolVersion", []byte("1.0.0"))
	p.field("StreamName", []byte("pingpong"), []byte("relay"))
	p.intField("Alpha", 0, 1, 2, 3, -1, 1000)
	p.intField("UType", 0, 1, 2, -1)
	return p
}

func honestUnderlay(i *identity) *rtpb.UnderlayResp {
	u, _ := i.fullMA.MarshalBinary()
	return &rtpb.UnderlayResp{Dest: i.overlay.Bytes(), Underlay: u, Signature: i.addr.Signature}
}

func honestPath(t *rapid.T, src []byte) *rtpb.Path {
	items := [][]byte{src}
	if rapid.Bool().Draw(t, "mid") {
		items = append(items, addr32(0x5c))
	}
	items = append(items, peerID.overlay.Bytes())
	bodys := make([][]byte, len(items))
	for i := range bodys {
		bodys[i] = make([]byte, 8)
	}
	return &rtpb.Path{Sign: make([]byte, 32), Bodys: bodys, Items: items}
}

// ---- onRouteReq -------------------------------------------------------------------------------

var rtReqTypes = []reflect.Type{typ(&rtpb.RouteReq{})}

var tgRouteReq = register(&target{
	name:    "routetab-onRouteReq",
	inTypes: rtReqTypes,
	gen: func(t *rapid.T) kase {
		var c kase
		c.In, c.Gen = genStream(t, streamSpec{types: rtReqTypes, pool: rtPool(), honest: func(t *rapid.T) []proto.Message {
			dest := rapid.SampledFrom([][]byte{farAddr, nodeID.overlay.Bytes(), otherID.overlay.Bytes()}).Draw(t, "dest")
			return []proto.Message{&rtpb.RouteReq{Dest: dest, Alpha: 2, Paths: []*rtpb.Path{honestPath(t, addr32(0x5b))}, UType: int32(rapid.IntRange(0, 1).Draw(t, "ut")),
				UList: []*rtpb.UnderlayResp{honestUnderlay(otherID)}}}
		}})
		return c
	},
	run: func(c *kase) []string {
		e := newRoutetab(c)
		defer e.cancel()
		g0 := runtime.NumGoroutine()
		ctx, cancel := shortCtx()
		defer cancel()
		st := pstub.NewByteStream(c.In)
		err := handlerOf(e.svc.Protocol(), "onRouteReq")(ctx, peerOf(peerID), st)
		cls := []string{}
		if err != nil {
			cls = append(cls, "err")
		}
		if e.ss.NumCalls() > 0 {
			cls = append(cls, "sent-something")
		}
		if ps, _ := e.svc.GetRoute(ctx, boson.NewAddress(addr32(0x5b))); len(ps) > 0 {
			cls = append(cls, "route-learned")
		}
		settle(g0, time.Second)
		e.use(destsNamedIn(c.In, rtReqTypes)...)
		settle(g0, time.Second)
		return cls
	},
})

func TestC37_RouteReq(t *testing.T) { check(t, tgRouteReq, 240) }

// ---- onRouteResp ------------------------------------------------------------------------------

var rtRespTypes = []reflect.Type{typ(&rtpb.RouteResp{})}

var tgRouteResp = register(&target{
	name:    "routetab-onRouteResp",
	inTypes: rtRespTypes,
	gen: func(t *rapid.T) kase {
		var c kase
		knob(t, &c, "pending", 3) // 1: a local FindRoute(far) is waiting; 2,3: a forwarded request from another node is pending
		c.In, c.Gen = genStream(t, streamSpec{types: rtRespTypes, pool: rtPool(), honest: func(t *rapid.T) []proto.Message {
			return []proto.Message{&rtpb.RouteResp{Dest: farAddr, Paths: []*rtpb.Path{honestPath(t, farAddr)}, UType: int32(rapid.IntRange(0, 1).Draw(t, "ut")),
				UList: []*rtpb.UnderlayResp{honestUnderlay(other2ID)}}}
		}})
		return c
	},
	run: func(c *kase) []string {
		e := newRoutetab(c)
		defer e.cancel()
		g0 := runtime.NumGoroutine()
		cls := []string{}
		var found chan int
		fctx, fcancel := context.WithTimeout(context.Background(), 150*time.Millisecond)
		defer fcancel()
		switch c.k("pending") {
		case 1:
			found = make(chan int, 1)
			go func() {
				ps, _ := e.svc.FindRoute(fctx, boson.NewAddress(farAddr), 150*time.Millisecond)
				found <- len(ps)
			}()
			deadline := time.Now().Add(time.Second)
			for e.ss.NumCalls() == 0 && time.Now().Before(deadline) {
				time.Sleep(100 * time.Microsecond)
			}
		case 2, 3:
			// a route request of another node for far passes through us first
			req := &rtpb.RouteReq{Dest: farAddr, Alpha: 1, Paths: []*rtpb.Path{{Sign: make([]byte, 32), Bodys: [][]byte{make([]byte, 8)}, Items: [][]byte{other2ID.overlay.Bytes()}}}}
			ctx, cancel := shortCtx()
			_ = handlerOf(e.svc.Protocol(), "onRouteReq")(ctx, peerOf(other2ID), pstub.NewByteStream(pstub.Frame(mustMarshal(req))))
			cancel()
		}
		ctx, cancel := shortCtx()
		defer cancel()
		st := pstub.NewByteStream(c.In)
		err := handlerOf(e.svc.Protocol(), "onRouteResp")(ctx, peerOf(peerID), st)
		if err != nil {
			cls = append(cls, "err")
		}
		if found != nil {
			// FindRoute returns by itself: answered, or its own 150 ms timeout
			if n := <-found; n > 0 {
				cls = append(cls, "findroute-answered")
			}
		}
		settle(g0, time.Second)
		e.use(destsNamedIn(c.In, rtRespTypes)...)
		settle(g0, time.Second)
		return cls
	},
})

func TestC37_RouteResp(t *testing.T) { check(t, tgRouteResp, 240) }

// ---- onFindUnderlay ------------------------------------------------------------------------------

var rtUReqTypes = []reflect.Type{typ(&rtpb.UnderlayReq{})}
var rtURespTypes = []reflect.Type{typ(&rtpb.UnderlayResp{})}

var tgFindUnderlayHandler = register(&target{
	name:    "routetab-onFindUnderlay",
	inTypes: rtUReqTypes,
	gen: func(t *rapid.T) kase {
		var c kase
		c.In, c.Gen = genStream(t, streamSpec{types: rtUReqTypes, pool: rtPool(), honest: func(t *rapid.T) []proto.Message {
			return []proto.Message{&rtpb.UnderlayReq{Dest: rapid.SampledFrom([][]byte{otherID.overlay.Bytes(), farAddr}).Draw(t, "dest")}}
		}})
		return c
	},
	run: func(c *kase) []string {
		e := newRoutetab(c)
		defer e.cancel()
		g0 := runtime.NumGoroutine()
		ctx, cancel := shortCtx()
		defer cancel()
		st := pstub.NewByteStream(c.In)
		err := handlerOf(e.svc.Protocol(), "onFindUnderlay")(ctx, peerOf(peerID), st)
		cls := []string{}
		if err != nil {
			cls = append(cls, "err")
		} else if len(st.Written()) > 0 {
			cls = append(cls, "answered")
		}
		settle(g0, time.Second)
		return cls
	},
})

func TestC37_RouteFindUnderlayHandler(t *testing.T) { check(t, tgFindUnderlayHandler, 300) }

// ---- FindUnderlay (client read) --------------------------------------------------------------------

var tgFindUnderlayClient = register(&target{
	name:    "routetab-FindUnderlay",
	reTypes: rtURespTypes,
	client:  true,
	gen: func(t *rapid.T) kase {
		var c kase
		r, g := genStream(t, streamSpec{types: rtURespTypes, pool: rtPool(), honest: func(t *rapid.T) []proto.Message {
			return []proto.Message{honestUnderlay(other2ID)}
		}})
		c.Replies, c.Gen = [][]byte{r}, g
		return c
	},
	run: func(c *kase) []string {
		e := newRoutetab(c)
		defer e.cancel()
		_ = e.ab.Remove(other2ID.overlay)
		g0 := runtime.NumGoroutine()
		ctx, cancel := shortCtx()
		defer cancel()
		a, err := e.svc.FindUnderlay(ctx, other2ID.overlay, 40*time.Millisecond)
		cls := []string{}
		if err != nil {
			cls = append(cls, "err")
		} else {
			cls = append(cls, "accepted")
			_ = a.String()
		}
		useAddressBook(e.ab)
		settle(g0, time.Second)
		return cls
	},
})

func TestC37_RouteFindUnderlayClient(t *testing.T) { check(t, tgFindUnderlayClient, 300) }

// ---- onRelayConnChain -----------------------------------------------------------------------------

var rtRelayTypes = []reflect.Type{typ(&rtpb.RouteRelayReq{})}
var rtRelayRespTypes = []reflect.Type{typ(&rtpb.RouteRelayResp{})}

func honestRelayReq(t *rapid.T) *rtpb.RouteRelayReq {
	dest := rapid.SampledFrom([][]byte{nodeID.overlay.Bytes(), otherID.overlay.Bytes(), farAddr}).Draw(t, "dest")
	return &rtpb.RouteRelayReq{Src: addr32(0x5b), SrcMode: []byte{1}, Dest: dest, ProtocolName: []byte("pingpong"), ProtocolVersion: []byte("1.0.0"),
		StreamName: []byte("pingpong"), Data: pstub.Frame([]byte{0x0a, 0x02, 'h', 'i'}), MidCall: rapid.Bool().Draw(t, "mid"), Paths: [][]byte{addr32(0x5b), peerID.overlay.Bytes()}}
}

var tgRelayConnChain = register(&target{
	name:    "routetab-onRelayConnChain",
	inTypes: rtRelayTypes,
	gen: func(t *rapid.T) kase {
		var c kase
		b, g := genStream(t, streamSpec{types: rtRelayTypes[:1], pool: rtPool(), honest: func(t *rapid.T) []proto.Message {
			return []proto.Message{honestRelayReq(t)}
		}})
		// after the RouteRelayReq the stream carries the tunnelled protocol's own bytes
		tail, _ := genStream(t, streamSpec{types: []reflect.Type{typ(&rtpb.RouteRelayResp{})}, pool: rtPool()})
		c.In, c.Gen = append(b, tail...), g
		r := genRaw(t)
		c.Replies = [][]byte{r}
		return c
	},
	run: func(c *kase) []string {
		e := newRoutetab(c)
		defer e.cancel()
		g0 := runtime.NumGoroutine()
		ctx, cancel := shortCtx()
		defer cancel()
		st := pstub.NewByteStream(c.In)
		err := handlerOf(e.svc.Protocol(), "relayConnChain")(ctx, peerOf(peerID), st)
		cls := []string{}
		if err != nil {
			cls = append(cls, "err")
		}
		if bytes.HasPrefix(st.Written(), []byte("ack")) {
			cls = append(cls, "dispatched-locally")
		}
		if e.ss.NumCalls() > 0 {
			cls = append(cls, "forwarded")
		}
		settle(g0, time.Second)
		e.use(destsNamedIn(c.In, rtRelayTypes)...)
		settle(g0, time.Second)
		return cls
	},
})

func TestC37_RouteRelayConnChain(t *testing.T) { check(t, tgRelayConnChain, 240) }

// ---- onRelay ----------------------------------------------------------------------------------------

var tgRelay = register(&target{
	name:    "routetab-onRelay",
	inTypes: rtRelayTypes,
	reTypes: rtRelayRespTypes,
	gen: func(t *rapid.T) kase {
		var c kase
		c.In, c.Gen = genStream(t, streamSpec{types: rtRelayTypes, pool: rtPool(), honest: func(t *rapid.T) []proto.Message {
			n := rapid.IntRange(1, 3).Draw(t, "nreq")
			var out []proto.Message
			for i := 0; i < n; i++ {
				out = append(out, honestRelayReq(t))
			}
			return out
		}})
		r, _ := genStream(t, streamSpec{types: rtRelayRespTypes, pool: rtPool(), honest: func(t *rapid.T) []proto.Message {
			return []proto.Message{&rtpb.RouteRelayResp{Data: []byte("pong")}}
		}})
		c.Replies = [][]byte{r}
		return c
	},
	run: func(c *kase) []string {
		e := newRoutetab(c)
		defer e.cancel()
		g0 := runtime.NumGoroutine()
		ctx, cancel := context.WithTimeout(context.Background(), 80*time.Millisecond)
		defer cancel()
		st := pstub.NewByteStream(c.In)
		err := handlerOf(e.svc.Protocol(), "relay")(ctx, peerOf(peerID), st)
		cls := []string{}
		if err != nil {
			cls = append(cls, "err")
		}
		if e.ss.NumCalls() > 0 {
			cls = append(cls, "forwarded")
		}
		cancel()
		settle(g0, time.Second)
		e.use(destsNamedIn(c.In, rtRelayTypes)...)
		settle(g0, time.Second)
		return cls
	},
})

func TestC37_RouteRelay(t *testing.T) { check(t, tgRelay, 240) }
