// Package c37 checks property C37: no byte sequence sent by a remote peer makes
// the node panic, on any protocol handler or client-side read, including panics
// deferred to later local use of the state the message created.
//
// One Test function per protocol target. Every case is a serialisable kase
// (bytes the peer sends on the inbound stream, bytes it answers on the k-th
// outbound stream, a few small setup knobs); run() builds a fresh service,
// feeds the bytes through the real handler, then exercises the service's own
// getters. The only oracle is "no panic" (errors are fine).
package c37

import (
	"encoding/json"
	"fmt"
	"os"
	"os/exec"
	"path/filepath"
	"reflect"
	"runtime"
	"runtime/debug"
	"sort"
	"strings"
	"sync"
	"testing"
	"time"

	"github.com/gogo/protobuf/proto"
	"pgregory.net/rapid"
	"verifharness/internal/evid"
	"verifharness/internal/pstub"
)

const id = "C37"

const maxFrame = 1024 * 1024 // pkg/p2p/protobuf delimitedReaderMaxSize

// kase is the canonical, serialisable case of every target.
type kase struct {
	Target  string         `json:"target"`
	Gen     string         `json:"gen"`               // raw | framed | mutated | witness
	In      []byte         `json:"in"`                // what the remote peer sends on the inbound stream
	Replies [][]byte       `json:"replies,omitempty"` // what the remote answers on the k-th outbound stream
	K       map[string]int `json:"k,omitempty"`       // small setup knobs (meaning is per target)
}

func (c *kase) k(name string) int { return c.K[name] }

// shape is a known-finding shape: a predicate on the case deciding whether it
// has exactly the failing form, and a repair that removes the form by
// construction.
type shape struct {
	sig     string
	match   func(c *kase) bool
	fix     func(c *kase)
	witness func() kase
	child   bool // the panic happens on a service goroutine: the witness runs in a child process
	hang    bool // the failure is an endless loop, not a panic: the child reports it through its own watchdog
}

// target describes one protocol entry point.
type target struct {
	name    string
	inTypes []reflect.Type // message type of the i-th inbound frame (last repeats); nil for client-only targets
	reTypes []reflect.Type // message type of the i-th frame of an outbound stream's reply (last repeats)
	client  bool           // the hostile bytes of interest are in Replies (client-side read)
	gen     func(t *rapid.T) kase
	run     func(c *kase) []string // executes the case; returns extra classes; panics propagate
	shapes  []shape
	nt      func(c *kase) bool // optional override of the non-triviality predicate
}

func typ(m proto.Message) reflect.Type { return reflect.TypeOf(m).Elem() }

// ---- panic capture -----------------------------------------------------------

type panicErr struct {
	val   interface{}
	stack string
}

func (p *panicErr) Error() string { return fmt.Sprintf("panic: %v\n%s", p.val, p.stack) }

func safe(f func()) (pe *panicErr) {
	defer func() {
		if v := recover(); v != nil {
			pe = &panicErr{val: v, stack: string(debug.Stack())}
		}
	}()
	f()
	return nil
}

// settle waits (bounded) until the goroutines a case started have finished, so
// that a crash on a service goroutine is attributed to the right case and
// nothing outlives it. Hitting the cap is not a failure.
func settle(base int, cap time.Duration) {
	deadline := time.Now().Add(cap)
	for runtime.NumGoroutine() > base {
		if !time.Now().Before(deadline) {
			settleCapHits++
			if os.Getenv("C37_DEBUG_SETTLE") != "" {
				buf := make([]byte, 1<<20)
				fmt.Printf("SETTLE CAP base=%d now=%d\n%s\n", base, runtime.NumGoroutine(), buf[:runtime.Stack(buf, true)])
			}
			return
		}
		time.Sleep(200 * time.Microsecond)
	}
}

var settleCapHits int

// ---- decoding helpers ----------------------------------------------------------

// decodeFrames decodes the complete frames of b with the given type sequence.
// Entries are nil where a frame does not unmarshal.
func decodeFrames(b []byte, types []reflect.Type) (msgs []proto.Message, rest []byte) {
	if len(types) == 0 {
		return nil, b
	}
	payloads, rest := pstub.SplitFrames(b, maxFrame)
	for i, p := range payloads {
		ty := types[len(types)-1]
		if i < len(types) {
			ty = types[i]
		}
		m := reflect.New(ty).Interface().(proto.Message)
		if err := proto.Unmarshal(p, m); err != nil {
			msgs = append(msgs, nil)
			continue
		}
		msgs = append(msgs, m)
	}
	return msgs, rest
}

func encodeFrames(msgs []proto.Message, rest []byte) []byte {
	var out []byte
	for _, m := range msgs {
		if m == nil {
			continue
		}
		b, err := proto.Marshal(m)
		if err != nil {
			continue
		}
		out = append(out, pstub.Frame(b)...)
	}
	return append(out, rest...)
}

// nontrivial: the hostile bytes got past framing, i.e. their first frame is
// complete and unmarshals as the target's message type.
func (tg *target) nontrivial(c *kase) bool {
	if tg.nt != nil {
		return tg.nt(c)
	}
	if tg.client {
		for _, r := range c.Replies {
			m, _ := decodeFrames(r, tg.reTypes)
			if len(m) > 0 && m[0] != nil {
				return true
			}
		}
		return false
	}
	m, _ := decodeFrames(c.In, tg.inTypes)
	return len(m) > 0 && m[0] != nil
}

// ---- execution -----------------------------------------------------------------

func inflightPath(name string) string {
	d := os.Getenv("VERIF_REPLAY_OUT")
	if d == "" {
		return ""
	}
	return filepath.Join(d, "inflight-"+name+".json")
}

func writeInflight(c *kase) {
	p := inflightPath(c.Target)
	if p == "" {
		return
	}
	b, _ := json.Marshal(c)
	_ = os.WriteFile(p, b, 0o644)
}

func clearInflight(name string) {
	if p := inflightPath(name); p != "" {
		_ = os.Remove(p)
	}
}

// exec runs one case; a panic on the harness goroutine becomes (sig, err).
func (tg *target) exec(c *kase) (classes []string, sig string, err error) {
	writeInflight(c)
	caps := settleCapHits
	pe := safe(func() { classes = tg.run(c) })
	if settleCapHits > caps {
		classes = append(classes, "settle-cap-hit")
	}
	if pe == nil {
		return classes, "", nil
	}
	sig = "C37/" + tg.name + "-panic"
	for _, sh := range tg.shapes {
		if sh.match(c) {
			sig = sh.sig
			break
		}
	}
	return classes, sig, pe
}

func (tg *target) record(r *evid.Rec, c *kase, extra []string) {
	nt := tg.nontrivial(c)
	cls := []string{tg.name, tg.name + "/gen-" + c.Gen}
	if nt {
		cls = append(cls, tg.name+"/past-framing")
	}
	for _, e := range extra {
		cls = append(cls, tg.name+"/"+e)
	}
	r.Case(evid.Hash64(c), nt, cls...)
	if nt {
		r.Sample(sampleOf(c))
	}
}

// sampleOf shortens a case for the evidence file.
func sampleOf(c *kase) interface{} {
	short := func(b []byte) string {
		if len(b) <= 48 {
			return fmt.Sprintf("%x", b)
		}
		return fmt.Sprintf("%x...(%d bytes, h=%x)", b[:32], len(b), evid.Hash64(b))
	}
	var rs []string
	for _, r := range c.Replies {
		rs = append(rs, short(r))
	}
	return map[string]interface{}{"target": c.Target, "gen": c.Gen, "in": short(c.In), "replies": rs, "k": c.K}
}

const ruleText = "per protocol target (one Test function each; real service behind its Protocol() handler table or its exported client call, fresh state per case): " +
	"rapid draws a case = bytes the peer sends on the inbound stream + bytes it answers on each outbound stream + small setup knobs; three generators: " +
	"(raw) arbitrary bytes 0..2 KiB, truncated frames, varint length prefixes around and beyond the 1 MiB limit; " +
	"(framed) well-framed protobuf of the target's message type built field by field by reflection over the generated pb struct: nil sub-messages, empty/short/over-long byte fields, non-hex map keys, negative and extreme integers, values from a per-target pool (own address, connected peers, known roots/groups, valid signatures, valid chunks), extra trailing frames; " +
	"(mutated) an honest message with one wire-level field dropped, duplicated, truncated, extended, retyped or set to a boundary value; " +
	"after the handler returns the service's own getters and periodic functions run on whatever state was created; oracle: no panic (harness goroutine: recovered; service goroutine: process dies and the in-flight case is the replay); " +
	"non-trivial = the hostile bytes' first frame is complete and unmarshals as the target's message type; distinct by hash of the whole case"

// check is the body of every Test function.
func check(t *testing.T, tg *target, base int) {
	r := evid.Get(id)
	evid.Finish(t, r)
	r.SetRule(ruleText)
	ids()

	if f := os.Getenv("VERIF_REPLAY_FILE"); f != "" {
		b, err := os.ReadFile(f)
		if err != nil {
			t.Skip("no replay file")
		}
		var c kase
		if json.Unmarshal(b, &c) != nil || c.Target != tg.name {
			t.Skip("replay is for another target")
		}
		// a replayed case that has the shape of a listed finding is that finding's witness
		for _, sh := range tg.shapes {
			if !evid.Known(sh.sig) || !sh.match(&c) {
				continue
			}
			still := false
			if sh.child || sh.hang {
				still = childPanics(t, &c)
			} else {
				_, _, err := tg.exec(&c)
				still = err != nil
			}
			if still {
				r.Witness(sh.sig)
			}
			return
		}
		if _, sig, err := tg.exec(&c); err != nil {
			t.Fatalf("%s", evid.Violation(id, sig, fmt.Sprintf("target=%s %v", tg.name, err)))
		}
		return
	}
	if sh := os.Getenv("VERIF_SHARD"); os.Getenv("VERIF_REPLAY_ONLY") == "" && (sh == "" || sh == "0") {
		// witnesses of known findings (first shard only: every shard would print the same lines)
		for _, sh := range tg.shapes {
			if !evid.Known(sh.sig) || sh.witness == nil {
				continue
			}
			w := sh.witness()
			if sh.child || sh.hang {
				startChildWitnesses(t) // collected by TestC37_ZChildWitnesses, the last test of the binary
				continue
			}
			if _, _, err := tg.exec(&w); err != nil {
				r.Witness(sh.sig)
			}
		}
	}
	evid.Checks(base)
	rapid.Check(t, func(rt *rapid.T) {
		c := tg.gen(rt)
		c.Target = tg.name
		for _, sh := range tg.shapes {
			if evid.Known(sh.sig) && sh.match(&c) {
				sh.fix(&c)
				r.Excluded(sh.sig)
				if sh.match(&c) {
					rt.Fatalf("harness error: fix of %s does not remove the shape: %+v", sh.sig, c)
				}
			}
		}
		extra, sig, err := tg.exec(&c)
		if err != nil {
			b, _ := json.Marshal(c)
			rt.Fatalf("%s", evid.Violation(id, sig, fmt.Sprintf("target=%s %v\ncase=%s", tg.name, err, b)))
		}
		tg.record(r, &c, extra)
	})
	clearInflight(tg.name)
}

// ---- child-process witnesses (panics on service goroutines) ---------------------

// childPanics re-executes the test binary on the single witness case and
// reports whether the child died with a Go panic.
func childPanics(t *testing.T, c *kase) bool {
	dir, err := os.MkdirTemp("", "c37child")
	if err != nil {
		return false
	}
	defer os.RemoveAll(dir)
	b, _ := json.Marshal(c)
	f := filepath.Join(dir, "case.json")
	if os.WriteFile(f, b, 0o644) != nil {
		return false
	}
	cmd := exec.Command(os.Args[0], "-test.run", "^TestC37_ChildWitness$", "-test.count=1", "-test.timeout=60s")
	cmd.Env = append(os.Environ(), "C37_CHILD_CASE="+f, "VERIF_OUT=", "VERIF_REPLAY_OUT=", "VERIF_REPLAY_FILE=", "VERIF_REPLAY_ONLY=")
	out, err := cmd.CombinedOutput()
	if err == nil {
		return false
	}
	s := string(out)
	return strings.Contains(s, "panic:") || strings.Contains(s, "C37-CHILD-PANIC") || strings.Contains(s, "C37-CHILD-HANG")
}

// Child witnesses are costly (a fresh process each): they are all started together, once,
// by the first target that needs one, and each signature is run once per process.
var (
	childOnce   sync.Once
	childResult = map[string]chan bool{}
)

func startChildWitnesses(t *testing.T) {
	childOnce.Do(func() {
		for _, tg := range allTargets {
			for _, sh := range tg.shapes {
				if !(sh.child || sh.hang) || sh.witness == nil || !evid.Known(sh.sig) {
					continue
				}
				if _, ok := childResult[sh.sig]; ok {
					continue
				}
				ch := make(chan bool, 1)
				childResult[sh.sig] = ch
				w := sh.witness()
				go func() { ch <- childPanics(t, &w) }()
			}
		}
	})
}

var allTargets = map[string]*target{}

func register(tg *target) *target { allTargets[tg.name] = tg; return tg }

// TestC37_ChildWitness runs one case given by $C37_CHILD_CASE (used by childPanics only).
func TestC37_ChildWitness(t *testing.T) {
	f := os.Getenv("C37_CHILD_CASE")
	if f == "" {
		t.Skip("child-only")
	}
	b, err := os.ReadFile(f)
	if err != nil {
		t.Skip("no case")
	}
	var c kase
	if json.Unmarshal(b, &c) != nil {
		t.Skip("bad case")
	}
	tg := allTargets[c.Target]
	if tg == nil {
		t.Skip("unknown target")
	}
	warm() // environment start-up is not part of the case
	// a case takes milliseconds; one that is still running after 8 s is spinning
	wd := time.AfterFunc(8*time.Second, func() {
		fmt.Println("C37-CHILD-HANG")
		os.Exit(4)
	})
	defer wd.Stop()
	if pe := safe(func() { tg.run(&c) }); pe != nil {
		fmt.Println("C37-CHILD-PANIC", pe.val)
		os.Exit(3)
	}
	// give service goroutines the time to die
	time.Sleep(300 * time.Millisecond)
}

func sortedKeys(m map[string]int) []string {
	ks := make([]string, 0, len(m))
	for k := range m {
		ks = append(ks, k)
	}
	sort.Strings(ks)
	return ks
}
