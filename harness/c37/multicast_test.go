package c37

import (
	"bytes"
	"fmt"
	"context"
	"reflect"
	"runtime"
	"testing"
	"time"

	"github.com/gauss-project/aurorafs/pkg/boson"
	"github.com/gauss-project/aurorafs/pkg/multicast"
	"github.com/gauss-project/aurorafs/pkg/multicast/model"
	mcpb "github.com/gauss-project/aurorafs/pkg/multicast/pb"
	p2pmock "github.com/gauss-project/aurorafs/pkg/p2p/mock"
	"github.com/gogo/protobuf/proto"
	"pgregory.net/rapid"
	"verifharness/internal/evid"
	"verifharness/internal/pstub"
)

var (
	gidJoined  = boson.NewAddress(addr32(0xa1)) // a group this node has joined
	gidObserve = boson.NewAddress(addr32(0xa2)) // a group this node observes
)

type mcEnv struct {
	svc *multicast.Service
	ss  *pstub.ScriptedStreamer
}

// newMulticast builds the multicast service over the shared Kademlia. Knobs:
//
//	joined:     1 = gidJoined is joined and gidObserve observed (as configured groups)
//	subscribed: 1 = a local websocket client subscribed to the joined group's messages and multicasts
//	member:     1 = the sending peer announced its membership of gidJoined in an earlier handshake
//	stranger:   1 = the sending peer is not a direct neighbour (relayed)
func newMulticast(c *kase) *mcEnv {
	kad, _ := envKad()
	ss := pstub.NewScriptedStreamer()
	ss.FailFrom = 0 // nobody answers during set-up
	direct := map[string]bool{peerID.overlay.String(): c.k("stranger") == 0, otherID.overlay.String(): true, other2ID.overlay.String(): true}
	rs := &routeStub{isNeighbor: func(a boson.Address) bool { return direct[a.String()] }}
	svc := multicast.NewService(nodeID.overlay, fullMode(), p2pmock.New(), ss, kad, rs, logger, nopSubPub{}, multicast.Option{Dev: true})
	g0 := runtime.NumGoroutine()
	if c.k("joined") == 1 {
		_ = svc.AddGroup([]model.ConfigNodeGroup{{Name: gidJoined.String(), GType: model.GTypeJoin, KeepConnectedPeers: 1, KeepPingPeers: 1}})
		_ = svc.AddGroup([]model.ConfigNodeGroup{{Name: gidObserve.String(), GType: model.GTypeObserve, Nodes: []boson.Address{otherID.overlay}}})
		if c.k("subscribed") == 1 {
			_ = svc.SubscribeGroupMessage(nil, nil, gidJoined)
			_ = svc.SubscribeMulticastMsg(nil, nil, gidJoined)
		}
	}
	if c.k("member") == 1 {
		ctx, cancel := bg()
		_ = handlerOf(svc.Protocol(), "handshake")(ctx, peerOf(peerID), pstub.NewByteStream(pstub.Frame(mustMarshal(&mcpb.GIDs{Gid: [][]byte{gidJoined.Bytes()}}))))
		cancel()
	}
	settle(g0, 2*time.Second) // AddGroup's background handshakes / discovery
	ss.Reset(c.Replies...)
	return &mcEnv{svc: svc, ss: ss}
}

func (e *mcEnv) use(gids ...[]byte) {
	names := []string{gidJoined.String(), gidObserve.String()}
	for _, g := range gids {
		names = append(names, boson.NewAddress(g).String())
	}
	for _, n := range names {
		if ps, err := e.svc.GetGroupPeers(n); err == nil && ps != nil {
			for _, a := range append(ps.Connected, ps.Keep...) {
				_ = a.String()
			}
		}
		_, _ = e.svc.GetOptimumPeer(n)
	}
	_ = e.svc.Snapshot()
	_ = e.svc.Multicast(&mcpb.MulticastMsg{Gid: gidJoined.Bytes(), Data: []byte("local")})
	_ = e.svc.RemoveGroup(gidObserve, model.GTypeObserve)
}

func mcKnobs(t *rapid.T, c *kase) {
	knob(t, c, "joined", 1)
	knob(t, c, "subscribed", 1)
	// membership changes and non-neighbour peers make group.notifyPeers sleep up to 500 ms per
	// change (rate limiting of the websocket notification), so they are drawn rarely
	rare := 24
	if evid.Thorough() {
		rare = 9
	}
	if rapid.IntRange(0, rare).Draw(t, "k-member") == 0 {
		c.K["member"] = 1
	}
	if rapid.IntRange(0, rare).Draw(t, "k-stranger") == 0 {
		c.K["stranger"] = 1
	}
}

func mcPool(t *rapid.T) *pool {
	ids()
	p := &pool{}
	p.addBytes(gidJoined.Bytes(), gidJoined.Bytes(), gidObserve.Bytes(), addr32(0xa3), nodeID.overlay.Bytes(), peerID.overlay.Bytes(), otherID.overlay.Bytes(), other2ID.overlay.Bytes())
	p.field("Gid", gidJoined.Bytes(), gidJoined.Bytes(), gidObserve.Bytes(), addr32(0xa3))
	p.field("Origin", otherID.overlay.Bytes(), nodeID.overlay.Bytes(), addr32(0x5b))
	// multicast de-duplication is a process-wide cache keyed by (origin, id): fresh ids keep the
	// cases independent of each other
	p.intField("Id", rapid.Int64().Draw(t, "id1"), rapid.Int64().Draw(t, "id2"))
	p.intField("Type", 0, 1, 2, 3, -1)
	p.intField("Status", 1, 2, 0, 3)
	p.intField("Limit", 0, 1, 2, 5, -1, 1<<31-1)
	p.intField("Ttl", 0, 1, 8, 9, 10, -1)
	return p
}

func runMcHandler(stream string, gidsOf func(c *kase) [][]byte) func(c *kase) []string {
	return func(c *kase) []string {
		e := newMulticast(c)
		ctx, cancel := bg()
		defer cancel()
		g0 := runtime.NumGoroutine()
		st := pstub.NewByteStream(c.In)
		err := handlerOf(e.svc.Protocol(), stream)(ctx, peerOf(peerID), st)
		cls := []string{}
		if err != nil {
			cls = append(cls, "err")
		}
		if len(st.Written()) > 0 {
			cls = append(cls, "answered")
		}
		if e.ss.NumCalls() > 0 {
			cls = append(cls, "sent-something")
		}
		settle(g0, 2*time.Second)
		var gids [][]byte
		if gidsOf != nil {
			gids = gidsOf(c)
		}
		e.use(gids...)
		settle(g0, 2*time.Second)
		return cls
	}
}

// ---- handshake (incoming) ------------------------------------------------------------------------------

var mcGIDsTypes = []reflect.Type{typ(&mcpb.GIDs{})}

func gidsOfGIDs(c *kase) [][]byte {
	m, _ := decodeFrames(c.In, mcGIDsTypes)
	if len(m) > 0 && m[0] != nil {
		g := m[0].(*mcpb.GIDs).Gid
		if len(g) > 4 {
			g = g[:4]
		}
		return g
	}
	return nil
}

var tgMcHandshake = register(&target{
	name:    "multicast-HandshakeIncoming",
	inTypes: mcGIDsTypes,
	gen: func(t *rapid.T) kase {
		var c kase
		mcKnobs(t, &c)
		c.In, c.Gen = genStream(t, streamSpec{types: mcGIDsTypes, pool: mcPool(t), honest: func(t *rapid.T) []proto.Message {
			return []proto.Message{&mcpb.GIDs{Gid: [][]byte{gidJoined.Bytes(), addr32(0xa3)}}}
		}})
		return c
	},
	run: runMcHandler("handshake", gidsOfGIDs),
})

func TestC37_MulticastHandshakeIncoming(t *testing.T) { check(t, tgMcHandshake, 160) }

// ---- notify ------------------------------------------------------------------------------------------------

var mcNotifyTypes = []reflect.Type{typ(&mcpb.Notify{})}

var tgMcNotify = register(&target{
	name:    "multicast-onNotify",
	inTypes: mcNotifyTypes,
	gen: func(t *rapid.T) kase {
		var c kase
		mcKnobs(t, &c)
		c.In, c.Gen = genStream(t, streamSpec{types: mcNotifyTypes, pool: mcPool(t), honest: func(t *rapid.T) []proto.Message {
			return []proto.Message{&mcpb.Notify{Status: 1, Gids: [][]byte{gidJoined.Bytes()}}}
		}})
		return c
	},
	run: runMcHandler("notify", func(c *kase) [][]byte {
		m, _ := decodeFrames(c.In, mcNotifyTypes)
		if len(m) > 0 && m[0] != nil {
			g := m[0].(*mcpb.Notify).Gids
			if len(g) > 4 {
				g = g[:4]
			}
			return g
		}
		return nil
	}),
})

func TestC37_MulticastNotify(t *testing.T) { check(t, tgMcNotify, 200) }

// ---- find group ------------------------------------------------------------------------------------------

var mcFindReqTypes = []reflect.Type{typ(&mcpb.FindGroupReq{})}
var mcFindRespTypes = []reflect.Type{typ(&mcpb.FindGroupResp{})}

var tgMcFindGroup = register(&target{
	name:    "multicast-onFindGroup",
	inTypes: mcFindReqTypes,
	reTypes: mcFindRespTypes,
	gen: func(t *rapid.T) kase {
		var c kase
		mcKnobs(t, &c)
		p := mcPool(t)
		c.In, c.Gen = genStream(t, streamSpec{types: mcFindReqTypes, pool: p, honest: func(t *rapid.T) []proto.Message {
			gid := rapid.SampledFrom([][]byte{gidJoined.Bytes(), gidObserve.Bytes(), addr32(0xa3)}).Draw(t, "gid")
			return []proto.Message{&mcpb.FindGroupReq{Gid: gid, Limit: int32(rapid.IntRange(0, 5).Draw(t, "limit")), Ttl: int32(rapid.IntRange(0, 10).Draw(t, "ttl")), Paths: [][]byte{addr32(0x5b)}}}
		}})
		// the answer of the nodes the request is forwarded to
		r, _ := genStream(t, streamSpec{types: mcFindRespTypes, pool: p, honest: func(t *rapid.T) []proto.Message {
			return []proto.Message{&mcpb.FindGroupResp{Addresses: [][]byte{otherID.overlay.Bytes(), addr32(0x5b)}}}
		}})
		c.Replies = [][]byte{r}
		return c
	},
	run: runMcHandler("findGroup", nil),
})

func TestC37_MulticastFindGroup(t *testing.T) { check(t, tgMcFindGroup, 250) }

// ---- multicast message ------------------------------------------------------------------------------------

var mcMsgTypes = []reflect.Type{typ(&mcpb.MulticastMsg{})}

var tgMcMulticast = register(&target{
	name:    "multicast-onMulticast",
	inTypes: mcMsgTypes,
	gen: func(t *rapid.T) kase {
		var c kase
		mcKnobs(t, &c)
		p := mcPool(t)
		id := uint64(rapid.Int64().Draw(t, "honest-id"))
		c.In, c.Gen = genStream(t, streamSpec{types: mcMsgTypes, pool: p, honest: func(t *rapid.T) []proto.Message {
			gid := rapid.SampledFrom([][]byte{gidJoined.Bytes(), gidObserve.Bytes(), addr32(0xa3)}).Draw(t, "gid")
			return []proto.Message{&mcpb.MulticastMsg{Id: id, CreateTime: 1, Origin: otherID.overlay.Bytes(), Gid: gid, Data: []byte("payload")}}
		}})
		return c
	},
	run: runMcHandler("multicast", nil),
})

func TestC37_MulticastMulticast(t *testing.T) { check(t, tgMcMulticast, 250) }

// ---- sessions: a handshake announcing group ids, then a multicast message, both from one peer to the
// SAME service instance (the ids a peer announces are stored verbatim and compared with each other
// and with the ids of later messages)

func genGid(t *rapid.T, l string) []byte {
	base := rapid.SampledFrom([][]byte{gidJoined.Bytes(), gidObserve.Bytes(), addr32(0xa3), addr32(0xa4)}).Draw(t, l+"base")
	b := append([]byte(nil), base...)
	switch rapid.IntRange(0, 7).Draw(t, l+"form") {
	case 0:
		return b[:rapid.IntRange(1, len(b)-1).Draw(t, l+"prefix")]
	case 1:
		return append(b, byte(rapid.IntRange(0, 255).Draw(t, l+"ext")))
	case 2:
		n := rapid.SampledFrom(hostileLens).Draw(t, l+"n")
		return rapid.SliceOfN(rapid.Byte(), n, n).Draw(t, l+"rnd")
	case 3:
		return nil
	}
	return b
}

var tgMcSession = register(&target{
	name:    "multicast-session",
	inTypes: mcGIDsTypes,
	gen: func(t *rapid.T) kase {
		var c kase
		mcKnobs(t, &c)
		n := rapid.IntRange(1, 4).Draw(t, "ngids")
		g := &mcpb.GIDs{}
		for i := 0; i < n; i++ {
			g.Gid = append(g.Gid, genGid(t, fmt.Sprintf("g%d", i)))
		}
		c.In = pstub.Frame(mustMarshal(g))
		for i := rapid.IntRange(1, 2).Draw(t, "nmsgs"); i > 0; i-- {
			m := &mcpb.MulticastMsg{Id: uint64(rapid.Int64().Draw(t, "id")), CreateTime: 1, Origin: otherID.overlay.Bytes(),
				Gid: genGid(t, fmt.Sprintf("m%d", i)), Data: []byte("payload")}
			c.Replies = append(c.Replies, pstub.Frame(mustMarshal(m)))
		}
		c.Gen = "framed"
		return c
	},
	run: func(c *kase) []string {
		e := newMulticast(c)
		e.ss.Reset() // Replies are inbound messages here, nobody answers outbound streams
		ctx, cancel := bg()
		defer cancel()
		g0 := runtime.NumGoroutine()
		cls := []string{"session"}
		if err := handlerOf(e.svc.Protocol(), "handshake")(ctx, peerOf(peerID), pstub.NewByteStream(c.In)); err != nil {
			cls = append(cls, "err")
		}
		settle(g0, 2*time.Second)
		for _, in := range c.Replies {
			if err := handlerOf(e.svc.Protocol(), "multicast")(ctx, peerOf(peerID), pstub.NewByteStream(in)); err != nil {
				cls = append(cls, "err")
			}
			settle(g0, 2*time.Second)
		}
		e.use(gidsOfGIDs(c)...)
		settle(g0, 2*time.Second)
		return cls
	},
	nt: func(c *kase) bool { return len(c.Replies) > 0 },
})

func TestC37_MulticastSession(t *testing.T) { check(t, tgMcSession, 150) }

// ---- group message ----------------------------------------------------------------------------------------

var mcGroupMsgTypes = []reflect.Type{typ(&mcpb.GroupMsg{})}

// a SendReceive message to a joined+subscribed group followed by at least one more complete
// frame: the session's reader goroutine calls ReadMsg(nil) on that frame
func groupMsgSecondFrame(c *kase) bool {
	if !(c.k("joined") == 1 && c.k("subscribed") == 1) {
		return false
	}
	m, _ := decodeFrames(c.In, mcGroupMsgTypes)
	if len(m) < 1 || m[0] == nil {
		return false
	}
	g := m[0].(*mcpb.GroupMsg)
	if g.Type != int32(multicast.SendReceive) || !bytes.Equal(g.Gid, gidJoined.Bytes()) {
		return false
	}
	payloads, _ := pstub.SplitFrames(c.In, maxFrame)
	return len(payloads) >= 2
}

var tgMcMessage = register(&target{
	name:    "multicast-onMessage",
	inTypes: mcGroupMsgTypes,
	gen: func(t *rapid.T) kase {
		var c kase
		mcKnobs(t, &c)
		c.In, c.Gen = genStream(t, streamSpec{types: mcGroupMsgTypes, pool: mcPool(t), honest: func(t *rapid.T) []proto.Message {
			out := []proto.Message{&mcpb.GroupMsg{Gid: gidJoined.Bytes(), Data: []byte("hello group"), Type: int32(rapid.IntRange(0, 2).Draw(t, "type"))}}
			// stream-type senders keep writing GroupMsg frames on the same stream
			for n := rapid.IntRange(0, 2).Draw(t, "more"); n > 0; n-- {
				out = append(out, &mcpb.GroupMsg{Gid: gidJoined.Bytes(), Data: []byte("next"), Type: int32(multicast.SendStream)})
			}
			return out
		}})
		return c
	},
	run: runMcHandler("message", nil),
	shapes: []shape{{
		sig:   "C37/multicast-message-second-frame",
		child: true,
		match: groupMsgSecondFrame,
		fix: func(c *kase) {
			// keep the first frame only (plus an incomplete tail, which is harmless)
			payloads, _ := pstub.SplitFrames(c.In, maxFrame)
			c.In = pstub.Frame(payloads[0])
		},
		witness: func() kase {
			return kase{Target: "multicast-onMessage", Gen: "witness", K: map[string]int{"joined": 1, "subscribed": 1},
				In: append(pstub.Frame(mustMarshal(&mcpb.GroupMsg{Gid: gidJoined.Bytes(), Data: []byte("x"), Type: int32(multicast.SendReceive)})), 0x00)}
		},
	}},
})

func TestC37_MulticastMessage(t *testing.T) { check(t, tgMcMessage, 250) }

// ---- client-side reads: Handshake (GIDs), Send / SendReceive (GroupMsg) --------------------------------------

var tgMcClients = register(&target{
	name:    "multicast-clients",
	reTypes: mcGIDsTypes,
	client:  true,
	nt: func(c *kase) bool {
		ty := mcGroupMsgTypes
		if c.k("which") == 0 {
			ty = mcGIDsTypes
		}
		for _, r := range c.Replies {
			if m, _ := decodeFrames(r, ty); len(m) > 0 && m[0] != nil {
				return true
			}
		}
		return false
	},
	gen: func(t *rapid.T) kase {
		var c kase
		mcKnobs(t, &c)
		which := knob(t, &c, "which", 2) // 0 Handshake, 1 Send, 2 SendReceive
		p := mcPool(t)
		var r []byte
		var g string
		if which == 0 {
			r, g = genStream(t, streamSpec{types: mcGIDsTypes, pool: p, honest: func(t *rapid.T) []proto.Message {
				return []proto.Message{&mcpb.GIDs{Gid: [][]byte{gidJoined.Bytes(), addr32(0xa3)}}}
			}})
		} else {
			r, g = genStream(t, streamSpec{types: mcGroupMsgTypes, pool: p, honest: func(t *rapid.T) []proto.Message {
				return []proto.Message{&mcpb.GroupMsg{Gid: gidJoined.Bytes(), Data: []byte("reply"), Err: rapid.SampledFrom([]string{"", "", "%s%d", "boom"}).Draw(t, "err")}}
			}})
		}
		c.Replies, c.Gen = [][]byte{r}, g
		return c
	},
	run: func(c *kase) []string {
		e := newMulticast(c)
		ctx, cancel := context.WithTimeout(context.Background(), 2*time.Second)
		defer cancel()
		g0 := runtime.NumGoroutine()
		cls := []string{}
		var err error
		switch c.k("which") {
		case 0:
			cls = append(cls, "Handshake")
			err = e.svc.Handshake(ctx, peerID.overlay)
		case 1:
			cls = append(cls, "Send")
			err = e.svc.Send(ctx, []byte("data"), gidJoined, peerID.overlay)
		default:
			cls = append(cls, "SendReceive")
			var res []byte
			res, err = e.svc.SendReceive(ctx, []byte("data"), gidJoined, peerID.overlay)
			_ = len(res)
		}
		if err != nil {
			cls = append(cls, "err")
		} else {
			cls = append(cls, "ok")
		}
		settle(g0, 2*time.Second)
		var gids [][]byte
		if c.k("which") == 0 && len(c.Replies) > 0 {
			gids = gidsOfGIDs(&kase{In: c.Replies[0]})
		}
		e.use(gids...)
		settle(g0, 2*time.Second)
		return cls
	},
})

func TestC37_MulticastClients(t *testing.T) { check(t, tgMcClients, 160) }
