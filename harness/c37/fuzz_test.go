package c37

import (
	"encoding/json"
	"fmt"
	"os"
	"path/filepath"
	"testing"

	"github.com/gauss-project/aurorafs/pkg/cac"
	cipb "github.com/gauss-project/aurorafs/pkg/chunkinfo/pb"
	"github.com/gauss-project/aurorafs/pkg/p2p/libp2p/verifx"
	rtpb "github.com/gauss-project/aurorafs/pkg/routetab/pb"
	tpb "github.com/gauss-project/aurorafs/pkg/settlement/traffic/trafficprotocol/pb"
	"github.com/gogo/protobuf/proto"
	"pgregory.net/rapid"
	"verifharness/internal/evid"
	"verifharness/internal/pstub"
)

// Native fuzz targets (thorough tier only; `go test -fuzz`). The fuzzer owns the
// bytes of the hostile stream directly; known-finding shapes are skipped, every
// other panic fails the target. Seeds: an honest conversation, the generated
// well-framed variants stored under /verif/corpus/C37/<target>/, and a few
// degenerate streams.

// warm builds the process-wide environment (keys, in-memory stores, uploaded files,
// Kademlia) before f.Fuzz: the fuzz worker's per-input watchdog (10 s) must not have to
// cover that start-up on a busy machine.
func warm() {
	ids()
	fileEnv()
	remoteEnv()
	envKad()
	trPool()
}

func corpusDir(name string) string {
	root := os.Getenv("VERIF_ROOT")
	if root == "" {
		root = "/verif"
	}
	return filepath.Join(root, "corpus", "C37", name)
}

func addCorpus(f *testing.F, name string, extra ...[]byte) {
	for _, b := range extra {
		f.Add(b)
	}
	f.Add([]byte{})
	f.Add([]byte{0x00})
	f.Add([]byte{0x00, 0x00})
	f.Add(pstub.FrameWithLen(maxFrame+1, []byte{1, 2, 3}))
	files, _ := filepath.Glob(filepath.Join(corpusDir(name), "*.bin"))
	for _, fn := range files {
		if b, err := os.ReadFile(fn); err == nil {
			f.Add(b)
		}
	}
}

// fuzzExec runs one fuzz input through a target; mk builds the case from the bytes.
func fuzzExec(t *testing.T, tg *target, c *kase) {
	c.Target = tg.name
	for _, sh := range tg.shapes {
		if sh.match(c) {
			if evid.Known(sh.sig) {
				t.Skip("known finding shape " + sh.sig)
			}
		}
	}
	if _, sig, err := tg.exec(c); err != nil {
		b, _ := json.Marshal(c)
		t.Fatalf("%s", evid.Violation(id, sig, fmt.Sprintf("target=%s %v\ncase=%s", tg.name, err, b)))
	}
}

func FuzzC37_HandshakeHandle(f *testing.F) {
	warm()
	addCorpus(f, "FuzzC37_HandshakeHandle",
		pstub.Frames(mustMarshal(hsHonestSyn()), mustMarshal(hsHonestAck(1))),
		pstub.Frames(mustMarshal(hsHonestSyn()), mustMarshal(&verifx.HandshakeAck{Address: &verifx.HandshakeBzzAddress{}, NetworkID: networkID, NodeMode: []byte{1}})))
	f.Fuzz(func(t *testing.T, in []byte) {
		fuzzExec(t, tgHandshakeHandle, &kase{Gen: "fuzz", In: in, K: map[string]int{"picker": int(len(in)) % 3}})
	})
}

func FuzzC37_HandshakeDial(f *testing.F) {
	warm()
	addCorpus(f, "FuzzC37_HandshakeDial",
		pstub.Frame(mustMarshal(&verifx.HandshakeSynAck{Syn: hsHonestSyn(), Ack: hsHonestAck(1)})))
	f.Fuzz(func(t *testing.T, in []byte) {
		fuzzExec(t, tgHandshakeDial, &kase{Gen: "fuzz", In: in})
	})
}

func FuzzC37_RouteReq(f *testing.F) {
	warm()
	req := &rtpb.RouteReq{Dest: farAddr, Alpha: 2, UType: 1, UList: []*rtpb.UnderlayResp{honestUnderlay(otherID)},
		Paths: []*rtpb.Path{{Sign: make([]byte, 32), Bodys: [][]byte{make([]byte, 8), make([]byte, 8)}, Items: [][]byte{addr32(0x5b), peerID.overlay.Bytes()}}}}
	addCorpus(f, "FuzzC37_RouteReq", pstub.Frame(mustMarshal(req)))
	f.Fuzz(func(t *testing.T, in []byte) {
		fuzzExec(t, tgRouteReq, &kase{Gen: "fuzz", In: in})
	})
}

func FuzzC37_TrafficCheque(f *testing.F) {
	warm()
	good := jsonOf(signedCheque(peerID, nodeID, 2000))
	f.Add(good, ethOf(peerID).Bytes(), byte(1))
	f.Add([]byte("{}"), []byte{}, byte(2))
	f.Add([]byte(`{"Recipient":"0x0000000000000000000000000000000000000000","Beneficiary":"0x0000000000000000000000000000000000000000","CumulativePayout":null,"Signature":"AA=="}`), ethOf(peerID).Bytes(), byte(1))
	files, _ := filepath.Glob(filepath.Join(corpusDir("FuzzC37_TrafficCheque"), "*.bin"))
	for _, fn := range files {
		if b, err := os.ReadFile(fn); err == nil {
			f.Add(b, ethOf(peerID).Bytes(), byte(1))
		}
	}
	f.Fuzz(func(t *testing.T, chequeJSON, addr []byte, known byte) {
		in := pstub.Frame(mustMarshal(&tpb.EmitCheque{Address: addr, SignedCheque: chequeJSON}))
		tg := tgTrafficHandler
		if known&4 != 0 {
			tg = tgTrafficInitHandler
		}
		fuzzExec(t, tg, &kase{Gen: "fuzz", In: in, K: map[string]int{"known": int(known) % 3}})
	})
}

// The fuzzer supplies chunk payloads (span || data); the target seals them (Hash = BMT
// address) so that the parsers behind the pyramid's hash check - joiner, manifest,
// mantaray - see fuzzed content. The first chunk is the root that is asked for.
func FuzzC37_PyramidChunks(f *testing.F) {
	warm()
	remoteEnv()
	seed := [][]byte{nil, nil, nil}
	for i, hc := range remotePyramid {
		if i < 3 {
			seed[i] = hc.chunk
		}
	}
	f.Add(seed[0], seed[1], seed[2])
	f.Add(append([]byte{5, 0, 0, 0, 0, 0, 0, 0}, []byte("hello")...), []byte{}, []byte{})
	f.Add(append([]byte{64, 0, 4, 0, 0, 0, 0, 0}, make([]byte, 64)...), []byte{}, []byte{})
	f.Fuzz(func(t *testing.T, c0, c1, c2 []byte) {
		var msgs []proto.Message
		for _, ch := range [][]byte{c0, c1, c2} {
			if len(ch) < 8 || len(ch) > 8+4096 {
				continue
			}
			sealed, err := cac.NewWithDataSpan(ch)
			if err != nil {
				continue
			}
			msgs = append(msgs, &cipb.ChunkPyramidResp{Hash: sealed.Address().Bytes(), Chunk: ch})
		}
		if len(msgs) == 0 {
			t.Skip()
		}
		msgs = append(msgs, &cipb.ChunkPyramidResp{Ok: true})
		c := &kase{Gen: "fuzz", Replies: [][]byte{encodeFrames(msgs, nil)}, K: map[string]int{"rootsel": 1}}
		fuzzExec(t, tgChunkInfoPyramidClient, c)
	})
}

// TestC37_WriteCorpus regenerates the seed corpus under /verif/corpus/C37 from the
// well-framed generator (run by hand with C37_WRITE_CORPUS=1; the files are committed).
func TestC37_WriteCorpus(t *testing.T) {
	if os.Getenv("C37_WRITE_CORPUS") == "" {
		t.Skip("only on request")
	}
	write := func(name string, i int, b []byte) {
		d := corpusDir(name)
		_ = os.MkdirAll(d, 0o755)
		_ = os.WriteFile(filepath.Join(d, fmt.Sprintf("seed-%02d.bin", i)), b, 0o644)
	}
	for name, tg := range map[string]*target{"FuzzC37_HandshakeHandle": tgHandshakeHandle, "FuzzC37_HandshakeDial": tgHandshakeDial, "FuzzC37_RouteReq": tgRouteReq} {
		i := 0
		for seed := 1; i < 12 && seed < 400; seed++ {
			c := exampleCase(tg, seed)
			if c == nil || c.Gen == "raw" || !tg.nontrivial(c) {
				continue
			}
			write(name, i, c.In)
			i++
		}
	}
	i := 0
	for seed := 1; i < 12 && seed < 400; seed++ {
		c := exampleCase(tgTrafficHandler, seed)
		if c == nil {
			continue
		}
		if m := emitOf(c.In); m != nil && len(m.SignedCheque) > 0 {
			write("FuzzC37_TrafficCheque", i, m.SignedCheque)
			i++
		}
	}
}

// exampleCase draws one case of a target from a fixed seed.
func exampleCase(tg *target, seed int) (out *kase) {
	defer func() { _ = recover() }()
	c := rapid.Custom(func(t *rapid.T) kase { return tg.gen(t) }).Example(seed)
	c.Target = tg.name
	return &c
}
