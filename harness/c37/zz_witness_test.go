package c37

import (
	"os"
	"testing"

	"verifharness/internal/evid"
)

// TestC37_ZChildWitnesses is the last test of the binary (file order): it collects the
// witnesses of the known findings whose failure kills or hangs the process; they were
// started as child processes by the first target that owns one and ran in the background.
func TestC37_ZChildWitnesses(t *testing.T) {
	r := evid.Get(id)
	evid.Finish(t, r)
	if sh := os.Getenv("VERIF_SHARD"); os.Getenv("VERIF_REPLAY_ONLY") != "" || os.Getenv("VERIF_REPLAY_FILE") != "" || !(sh == "" || sh == "0") {
		t.Skip("witnesses run in the first shard only")
	}
	startChildWitnesses(t)
	for sig, ch := range childResult {
		if <-ch {
			r.Witness(sig)
		}
	}
}
