package c37

import (
	"context"
	"fmt"
	"reflect"
	"runtime"
	"sync"
	"testing"
	"time"

	"github.com/gauss-project/aurorafs/pkg/addressbook"
	"github.com/gauss-project/aurorafs/pkg/boson"
	discmock "github.com/gauss-project/aurorafs/pkg/discovery/mock"
	"github.com/gauss-project/aurorafs/pkg/hive2"
	hivepb "github.com/gauss-project/aurorafs/pkg/hive2/pb"
	p2pmock "github.com/gauss-project/aurorafs/pkg/p2p/mock"
	pingmock "github.com/gauss-project/aurorafs/pkg/pingpong/mock"
	"github.com/gauss-project/aurorafs/pkg/shed"
	"github.com/gauss-project/aurorafs/pkg/topology"
	"github.com/gauss-project/aurorafs/pkg/topology/bootnode"
	"github.com/gauss-project/aurorafs/pkg/topology/kademlia"
	"github.com/gauss-project/aurorafs/pkg/topology/lightnode"
	"github.com/gogo/protobuf/proto"
	"pgregory.net/rapid"
	"verifharness/internal/pstub"
)

// ---- real Kademlia as environment ------------------------------------------------------

var (
	shedOnce sync.Once
	shedDB   *shed.DB
)

func metricsDB() *shed.DB {
	shedOnce.Do(func() {
		db, err := shed.NewDB("", &shed.Options{Driver: "leveldb"})
		if err != nil {
			panic("harness: shed: " + err.Error())
		}
		shedDB = db
	})
	return shedDB
}

// newKad builds a real, unstarted Kademlia (no manage loop) whose address book is ab,
// with peerID, otherID and other2ID connected. kademlia.New starts one blocker
// goroutine that cannot be stopped without Start/Close, so callers share instances.
func newKad(ab addressbook.Interface) *kademlia.Kad {
	ids()
	p2ps := p2pmock.New()
	ping := pingmock.New(func(context.Context, boson.Address, ...string) (time.Duration, error) { return 0, nil })
	k, err := kademlia.New(nodeID.overlay, ab, discmock.NewDiscovery(), p2ps, ping, lightnode.NewContainer(nodeID.overlay), bootnode.NewContainer(nodeID.overlay),
		metricsDB(), logger, nopSubPub{}, kademlia.Options{NodeMode: fullMode()})
	if err != nil {
		panic("harness: kademlia.New: " + err.Error())
	}
	for _, i := range []*identity{peerID, otherID, other2ID} {
		k.Outbound(peerOf(i))
	}
	return k
}

var (
	kadOnce   sync.Once
	sharedKad *kademlia.Kad
	sharedAB  addressbook.Interface
)

// envKad returns the process-wide Kademlia (read-only environment for most targets)
// and re-populates the (wiped) address book it reads from.
func envKad() (*kademlia.Kad, addressbook.Interface) {
	st := newStateStore()
	kadOnce.Do(func() {
		sharedAB = addressbook.New(st)
		sharedKad = newKad(sharedAB)
	})
	ids()
	for _, k := range []*identity{peerID, otherID, other2ID} {
		_ = sharedAB.Put(k.overlay, *k.addr)
	}
	return sharedKad, sharedAB
}

// ---- hive2 onFindNode --------------------------------------------------------------------

var hiveReqTypes = []reflect.Type{typ(&hivepb.FindNodeReq{})}

func hivePool() *pool {
	ids()
	p := &pool{}
	p.addBytes(nodeID.overlay.Bytes(), peerID.overlay.Bytes(), otherID.overlay.Bytes(), other2ID.overlay.Bytes())
	for _, i := range []*identity{peerID, otherID, other2ID} {
		u, _ := i.fullMA.MarshalBinary()
		p.addBytes(u, i.addr.Signature)
	}
	for i := int64(0); i < 32; i++ {
		p.addInts(i)
	}
	p.addInts(30, 31, 60)
	return p
}

var tgHiveOnFindNode = register(&target{
	name:    "hive2-onFindNode",
	inTypes: hiveReqTypes,
	gen: func(t *rapid.T) kase {
		var c kase
		knob(t, &c, "private", 1)
		c.In, c.Gen = genStream(t, streamSpec{types: hiveReqTypes, pool: hivePool(), honest: func(t *rapid.T) []proto.Message {
			n := rapid.IntRange(0, 6).Draw(t, "npos")
			pos := make([]int32, n)
			for i := range pos {
				pos[i] = int32(rapid.IntRange(0, 31).Draw(t, "pos"))
			}
			return []proto.Message{&hivepb.FindNodeReq{Target: otherID.overlay.Bytes(), Pos: pos, Limit: int32(rapid.IntRange(0, 40).Draw(t, "limit"))}}
		}})
		return c
	},
	run: func(c *kase) []string {
		kad, ab := envKad()
		ss := pstub.NewScriptedStreamer()
		svc := hive2.New(ss, ab, networkID, logger)
		defer svc.Close()
		svc.SetConfig(hive2.Config{Kad: kad, Base: nodeID.overlay, AllowPrivateCIDRs: c.k("private") == 1})
		ctx, cancel := bg()
		defer cancel()
		g0 := runtime.NumGoroutine()
		st := pstub.NewByteStream(c.In)
		err := handlerOf(svc.Protocol(), "findNode")(ctx, peerOf(peerID), st)
		cls := []string{}
		if err != nil {
			cls = append(cls, "err")
		} else if len(st.Written()) > 2 {
			cls = append(cls, "answered-with-peers")
		}
		settle(g0, time.Second)
		return cls
	},
})

func TestC37_Hive2OnFindNode(t *testing.T) { check(t, tgHiveOnFindNode, 400) }

// ---- hive2 DoFindNode (client read of Peers) ----------------------------------------------

var hivePeersTypes = []reflect.Type{typ(&hivepb.Peers{})}

var (
	findKad   *kademlia.Kad
	findKadAB addressbook.Interface
	findKadN  int
)

var tgHiveDoFindNode = register(&target{
	name:    "hive2-DoFindNode",
	reTypes: hivePeersTypes,
	client:  true,
	gen: func(t *rapid.T) kase {
		var c kase
		// a reachable peer costs 500 ms inside hive2 (fixed sleep before reporting it), so
		// the ping succeeds only in a minority of the cases
		knob(t, &c, "pingok", 5)
		r, g := genStream(t, streamSpec{types: hivePeersTypes, pool: hivePool(), honest: func(t *rapid.T) []proto.Message {
			var ps []*hivepb.AuroraAddress
			for _, i := range []*identity{otherID, other2ID} {
				if rapid.Bool().Draw(t, "incl") {
					u, _ := i.fullMA.MarshalBinary()
					ps = append(ps, &hivepb.AuroraAddress{Underlay: u, Signature: i.addr.Signature, Overlay: i.overlay.Bytes()})
				}
			}
			return []proto.Message{&hivepb.Peers{Peers: ps}}
		}})
		c.Replies, c.Gen = [][]byte{r}, g
		return c
	},
	run: func(c *kase) []string {
		ids()
		st := newStateStore()
		// the Kademlia that receives the discovered peers is renewed every 64 cases
		if findKad == nil || findKadN >= 64 {
			findKadAB = addressbook.New(st)
			findKad = newKad(findKadAB)
			findKadN = 0
		}
		findKadN++
		ab, kad := findKadAB, findKad
		ss := pstub.NewScriptedStreamer(c.Replies...)
		if c.k("pingok") != 0 {
			ss.PingErr = pstub.ErrScripted
		}
		svc := hive2.New(ss, ab, networkID, logger)
		svc.SetConfig(hive2.Config{Kad: kad, Base: nodeID.overlay})
		svc.SetAddPeersHandler(kad.AddPeers) // as pkg/node wires it
		ctx, cancel := bg()
		defer cancel()
		g0 := runtime.NumGoroutine()
		res, err := svc.DoFindNode(ctx, otherID.overlay, peerID.overlay, []int32{0, 1, 2}, 16)
		cls := []string{}
		if err != nil {
			cls = append(cls, "err")
		}
		n := 0
		if res != nil {
			// what kademlia's discover loop does with the result
			for a := range res {
				_ = a.String()
				n++
			}
		}
		if n > 0 {
			cls = append(cls, "peers-accepted")
		}
		// local use of what the message created
		useAddressBook(ab)
		_ = kad.EachKnownPeer(func(a boson.Address, po uint8) (bool, bool, error) { _ = a.String(); return false, false, nil })
		_ = kad.EachPeer(func(a boson.Address, po uint8) (bool, bool, error) { return false, false, nil }, topology.Filter{})
		_ = kad.Snapshot()
		_ = kad.NeighborhoodDepth()
		_, _ = kad.ClosestPeer(otherID.overlay, false, topology.Filter{})
		_ = svc.Close()
		settle(g0, 2*time.Second)
		return cls
	},
})

func TestC37_Hive2DoFindNode(t *testing.T) { check(t, tgHiveDoFindNode, 200) }

// ---- hive2 DoFindNode with a long reply of valid, reachable records, and the service shut down while the
// records are being validated (validations of reachable peers sleep 500 ms before reporting; at most
// 31 run at once, so a longer reply leaves the batch loop waiting - which a shutdown interrupts)

var (
	manyOnce sync.Once
	manyIDs  []*identity
)

func many() []*identity {
	manyOnce.Do(func() {
		for i := 0; i < 70; i++ {
			manyIDs = append(manyIDs, newIdentity(byte(0x60+i), fmt.Sprintf("8.9.%d.%d", 1+i/200, 1+i%200)))
		}
	})
	return manyIDs
}

var tgHiveLongReply = register(&target{
	name:    "hive2-DoFindNode-long-reply",
	reTypes: hivePeersTypes,
	client:  true,
	gen: func(t *rapid.T) kase {
		var c kase
		n := rapid.SampledFrom([]int{5, 30, 31, 32, 33, 40, 64, 70}).Draw(t, "records")
		c.K = map[string]int{"records": n, "closeafter": rapid.SampledFrom([]int{-1, 0, 50, 150, 300}).Draw(t, "closeafter")}
		var ps []*hivepb.AuroraAddress
		for _, i := range many()[:n] {
			u, _ := i.fullMA.MarshalBinary()
			ps = append(ps, &hivepb.AuroraAddress{Underlay: u, Signature: i.addr.Signature, Overlay: i.overlay.Bytes()})
		}
		c.Replies, c.Gen = [][]byte{pstub.Frame(mustMarshal(&hivepb.Peers{Peers: ps}))}, "framed"
		return c
	},
	nt: func(c *kase) bool { return c.k("records") > 31 && c.k("closeafter") >= 0 },
	run: func(c *kase) []string {
		ids()
		st := newStateStore()
		ab := addressbook.New(st)
		kad := newKad(ab)
		ss := pstub.NewScriptedStreamer(c.Replies...)
		svc := hive2.New(ss, ab, networkID, logger)
		svc.SetConfig(hive2.Config{Kad: kad, Base: nodeID.overlay})
		svc.SetAddPeersHandler(kad.AddPeers)
		ctx, cancel := bg()
		defer cancel()
		g0 := runtime.NumGoroutine()
		cls := []string{}
		closed := make(chan struct{})
		if d := c.k("closeafter"); d >= 0 {
			go func() {
				time.Sleep(time.Duration(d) * time.Millisecond)
				_ = svc.Close()
				close(closed)
			}()
			cls = append(cls, "shutdown-during-validation")
		} else {
			close(closed)
		}
		// on a shutdown in mid-batch the unchanged code never closes the result channel, so the caller
		// waits for ever (a hang on shutdown, not a crash: outside this property) - the call therefore
		// runs on its own goroutine and is given 3 s
		finished := make(chan struct{})
		go func() {
			defer close(finished)
			defer func() { _ = recover() }()
			res, err := svc.DoFindNode(ctx, otherID.overlay, peerID.overlay, []int32{0, 1, 2}, 16)
			_ = err
			if res != nil {
				for a := range res {
					_ = a.String()
				}
			}
		}()
		select {
		case <-finished:
		case <-time.After(3 * time.Second):
			cls = append(cls, "caller-still-waiting-after-shutdown")
		}
		<-closed
		// validations already past their ping report after their 500 ms pause
		time.Sleep(700 * time.Millisecond)
		useAddressBook(ab)
		if c.k("closeafter") < 0 {
			_ = svc.Close() // once only: Close is not idempotent (it closes a channel)
		}
		cancel()
		settle(g0, 500*time.Millisecond)
		return cls
	},
})

func TestC37_Hive2LongReply(t *testing.T) { check(t, tgHiveLongReply, 24) }
