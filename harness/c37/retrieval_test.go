package c37

import (
	"bytes"
	"context"
	"reflect"
	"runtime"
	"sync"
	"testing"
	"time"

	accmock "github.com/gauss-project/aurorafs/pkg/accounting/mock"
	"github.com/gauss-project/aurorafs/pkg/aurora"
	"github.com/gauss-project/aurorafs/pkg/boson"
	"github.com/gauss-project/aurorafs/pkg/cac"
	"github.com/gauss-project/aurorafs/pkg/chunkinfo"
	"github.com/gauss-project/aurorafs/pkg/file/loadsave"
	"github.com/gauss-project/aurorafs/pkg/file/pipeline"
	"github.com/gauss-project/aurorafs/pkg/file/pipeline/builder"
	"github.com/gauss-project/aurorafs/pkg/localstore"
	"github.com/gauss-project/aurorafs/pkg/manifest"
	"github.com/gauss-project/aurorafs/pkg/retrieval"
	"github.com/gauss-project/aurorafs/pkg/retrieval/aco"
	retrpb "github.com/gauss-project/aurorafs/pkg/retrieval/pb"
	"github.com/gauss-project/aurorafs/pkg/routetab"
	"github.com/gauss-project/aurorafs/pkg/storage"
	"github.com/gauss-project/aurorafs/pkg/traversal"
	"github.com/gogo/protobuf/proto"
	"pgregory.net/rapid"
	"verifharness/internal/pstub"
)

// ---- local store with two uploaded files (process-wide environment) ----------------------

var (
	lsOnce     sync.Once
	ls         *localstore.DB
	trav       traversal.Traverser
	fileRoot   boson.Address   // a 2-data-chunk file (root is an intermediate chunk)
	fileChunks []boson.Address // its data chunks
	smallRoot  boson.Address   // a single-chunk file
)

func fileEnv() {
	lsOnce.Do(func() {
		ids()
		db, err := localstore.New("", nodeID.overlay.Bytes(), &localstore.Options{Driver: "leveldb", Capacity: 1 << 20}, logger)
		if err != nil {
			panic("harness: localstore: " + err.Error())
		}
		ls = db
		trav = traversal.New(ls)
		big := make([]byte, boson.ChunkSize+4096)
		for i := range big {
			big[i] = byte(i*7 + i/251)
		}
		// files are uploaded the way POST /aurora does it: content + a manifest that names it; the
		// manifest reference is the root the rest of the node knows the file by
		fileRoot = uploadWithManifest(ls, "big.bin", big)
		smallRoot = uploadWithManifest(ls, "small.txt", []byte("a small file of one chunk"))
		hs, _, err := trav.GetChunkHashes(context.Background(), fileRoot, nil)
		if err != nil {
			panic("harness: chunk hashes: " + err.Error())
		}
		for _, l := range hs {
			for _, b := range l {
				fileChunks = append(fileChunks, boson.NewAddress(b))
			}
		}
		if len(fileChunks) != 2 {
			panic("harness: expected a 2-chunk file")
		}
	})
}

// putGetter is what the upload pipeline and the manifest need from a store.
type putGetter interface {
	storage.Putter
	storage.Getter
}

func uploadWithManifest(st putGetter, name string, data []byte) boson.Address {
	ctx := context.Background()
	pf := func() pipeline.Interface { return builder.NewPipelineBuilder(ctx, st, storage.ModePutUpload, false) }
	fr, err := builder.FeedPipeline(ctx, pf(), bytes.NewReader(data))
	if err != nil {
		panic("harness: upload: " + err.Error())
	}
	m, err := manifest.NewDefaultManifest(loadsave.New(st, pf), false)
	if err != nil {
		panic("harness: manifest: " + err.Error())
	}
	if err := m.Add(ctx, manifest.RootPath, manifest.NewEntry(boson.ZeroAddress, map[string]string{manifest.WebsiteIndexDocumentSuffixKey: name})); err != nil {
		panic("harness: manifest add: " + err.Error())
	}
	if err := m.Add(ctx, name, manifest.NewEntry(fr, map[string]string{manifest.EntryMetadataContentTypeKey: "application/octet-stream", manifest.EntryMetadataFilenameKey: name})); err != nil {
		panic("harness: manifest add: " + err.Error())
	}
	ref, err := m.Store(ctx)
	if err != nil {
		panic("harness: manifest store: " + err.Error())
	}
	return ref
}

// routeStub is a routetab.RouteTab whose answers are chosen by the case.
type routeStub struct {
	connectErr error
	neighbors  []boson.Address
	isNeighbor func(boson.Address) bool
}

func (r *routeStub) GetRoute(context.Context, boson.Address) ([]*routetab.Path, error) {
	return nil, routetab.ErrNotFound
}
func (r *routeStub) FindRoute(context.Context, boson.Address, ...time.Duration) ([]*routetab.Path, error) {
	return nil, routetab.ErrNotFound
}
func (r *routeStub) DelRoute(context.Context, boson.Address) error { return nil }
func (r *routeStub) Connect(context.Context, boson.Address) error  { return r.connectErr }
func (r *routeStub) GetTargetNeighbor(context.Context, boson.Address, int) ([]boson.Address, error) {
	if len(r.neighbors) == 0 {
		return nil, routetab.ErrNotFound
	}
	return r.neighbors, nil
}
func (r *routeStub) IsNeighbor(a boson.Address) bool {
	if r.isNeighbor != nil {
		return r.isNeighbor(a)
	}
	return false
}
func (r *routeStub) FindUnderlay(context.Context, boson.Address, ...time.Duration) (*aurora.Address, error) {
	return nil, routetab.ErrNotFound
}

var _ routetab.RouteTab = (*routeStub)(nil)

// ciStub records what retrieval reports to chunkinfo (all arguments are addresses
// retrieval already used itself).
type ciStub struct {
	chunkinfo.Interface
	mu sync.Mutex
	n  int
}

func (c *ciStub) OnChunkRetrieved(cid, root, src boson.Address) error {
	c.mu.Lock()
	c.n++
	c.mu.Unlock()
	_, _, _ = cid.String(), root.String(), src.String()
	return nil
}
func (c *ciStub) OnChunkTransferred(cid, root, overlay, target boson.Address) error {
	return c.OnChunkRetrieved(cid, root, overlay)
}
func (c *ciStub) GetChunkInfo(root, cid boson.Address) []aco.Route { return nil }

var retrReqTypes = []reflect.Type{typ(&retrpb.RequestChunk{})}
var retrDelTypes = []reflect.Type{typ(&retrpb.Delivery{})}

func newRetrieval(ss *pstub.ScriptedStreamer, c *kase) *retrieval.Service {
	fileEnv()
	rs := &routeStub{}
	if c.k("connectfail") == 1 {
		rs.connectErr = pstub.ErrScripted
	}
	svc := retrieval.New(nodeID.overlay, ss, rs, ls, true, logger, nil, accmock.NewAccounting(), nopSubPub{})
	svc.Config(&ciStub{})
	return svc
}

// a fresh valid content-addressed chunk that is not in the local store
func freshChunk(t *rapid.T) boson.Chunk {
	n := rapid.IntRange(1, 64).Draw(t, "freshlen")
	ch, err := cac.New(rapid.SliceOfN(rapid.Byte(), n, n).Draw(t, "fresh"))
	if err != nil {
		panic("harness: cac: " + err.Error())
	}
	return ch
}

func retrPool(ch boson.Chunk) *pool {
	ids()
	fileEnv()
	p := &pool{}
	p.addBytes(nodeID.overlay.Bytes(), peerID.overlay.Bytes(), otherID.overlay.Bytes(), fileRoot.Bytes(), smallRoot.Bytes(),
		fileChunks[0].Bytes(), fileChunks[1].Bytes(), ch.Address().Bytes(), ch.Data(), ch.Data()[:8])
	return p
}

// ---- retrieval handler ---------------------------------------------------------------------

var tgRetrievalHandler = register(&target{
	name:    "retrieval-handler",
	inTypes: retrReqTypes,
	reTypes: retrDelTypes,
	gen: func(t *rapid.T) kase {
		var c kase
		knob(t, &c, "connectfail", 3)
		ch := freshChunk(t)
		p := retrPool(ch)
		c.In, c.Gen = genStream(t, streamSpec{types: retrReqTypes, pool: p, honest: func(t *rapid.T) []proto.Message {
			target := rapid.SampledFrom([][]byte{nodeID.overlay.Bytes(), otherID.overlay.Bytes(), otherID.overlay.Bytes()}).Draw(t, "target")
			cid := rapid.SampledFrom([][]byte{fileChunks[0].Bytes(), smallRoot.Bytes(), ch.Address().Bytes(), ch.Address().Bytes()}).Draw(t, "cid")
			return []proto.Message{&retrpb.RequestChunk{TargetAddr: target, RootAddr: fileRoot.Bytes(), ChunkAddr: cid}}
		}})
		// the answer of the node the request is forwarded to
		r, _ := genStream(t, streamSpec{types: retrDelTypes, pool: p, honest: func(t *rapid.T) []proto.Message {
			return []proto.Message{&retrpb.Delivery{Data: ch.Data()}}
		}})
		c.Replies = [][]byte{r}
		return c
	},
	run: func(c *kase) []string {
		ss := pstub.NewScriptedStreamer(c.Replies...)
		svc := newRetrieval(ss, c)
		ctx, cancel := bg()
		defer cancel()
		g0 := runtime.NumGoroutine()
		st := pstub.NewByteStream(c.In)
		err := handlerOf(svc.Protocol(), "retrieval")(ctx, peerOf(peerID), st)
		cls := []string{}
		if err != nil {
			cls = append(cls, "err")
		} else {
			cls = append(cls, "delivered")
		}
		if ss.NumCalls() > 0 {
			cls = append(cls, "forwarded")
		}
		_ = svc.GetRouteScore(time.Now().Unix())
		settle(g0, 2*time.Second)
		return cls
	},
})

func TestC37_RetrievalHandler(t *testing.T) { check(t, tgRetrievalHandler, 400) }

// ---- retrieval client (retrieveChunk reads a Delivery) ----------------------------------------

var tgRetrievalClient = register(&target{
	name:    "retrieval-retrieveChunk",
	reTypes: retrDelTypes,
	client:  true,
	gen: func(t *rapid.T) kase {
		var c kase
		knob(t, &c, "which", 2) // which chunk address is asked for: the fresh chunk, a local one, a non-hash address
		ch := freshChunk(t)
		p := retrPool(ch)
		r, g := genStream(t, streamSpec{types: retrDelTypes, pool: p, honest: func(t *rapid.T) []proto.Message {
			return []proto.Message{&retrpb.Delivery{Data: ch.Data()}}
		}})
		c.Replies, c.Gen = [][]byte{r}, g
		// the address asked for travels in In (it is chosen locally, not by the peer)
		c.In = ch.Address().Bytes()
		return c
	},
	run: func(c *kase) []string {
		ss := pstub.NewScriptedStreamer(c.Replies...)
		svc := newRetrieval(ss, c)
		ctx, cancel := bg()
		defer cancel()
		g0 := runtime.NumGoroutine()
		cid := boson.NewAddress(c.In)
		switch c.k("which") {
		case 1:
			cid = fileChunks[1]
		case 2:
			cid = boson.NewAddress(addr32(0x77)[:20])
		}
		ch, err := svc.RetrieveChunkFromNode(ctx, peerID.overlay, fileRoot, cid)
		cls := []string{}
		if err != nil {
			cls = append(cls, "err")
		} else {
			cls = append(cls, "accepted")
			_ = ch.Data()
			got, gerr := ls.Get(ctx, storage.ModeGetRequest, cid)
			if gerr == nil {
				_ = got.Data()
			}
		}
		_ = svc.GetRouteScore(time.Now().Unix())
		settle(g0, 2*time.Second)
		return cls
	},
})

func TestC37_RetrievalClient(t *testing.T) { check(t, tgRetrievalClient, 400) }
