package c37

import (
	"context"
	"encoding/json"
	"math/big"
	"reflect"
	"runtime"
	"testing"
	"time"

	"github.com/ethereum/go-ethereum/common"
	"github.com/gauss-project/aurorafs/pkg/boson"
	p2pmock "github.com/gauss-project/aurorafs/pkg/p2p/mock"
	"github.com/gauss-project/aurorafs/pkg/pingpong"
	pingpb "github.com/gauss-project/aurorafs/pkg/pingpong/pb"
	chainmock "github.com/gauss-project/aurorafs/pkg/settlement/chain/traffic/mock"
	"github.com/gauss-project/aurorafs/pkg/settlement/traffic"
	"github.com/gauss-project/aurorafs/pkg/settlement/traffic/cheque"
	"github.com/gauss-project/aurorafs/pkg/settlement/traffic/trafficprotocol"
	tpb "github.com/gauss-project/aurorafs/pkg/settlement/traffic/trafficprotocol/pb"
	"github.com/gauss-project/aurorafs/pkg/storage"
	"github.com/gogo/protobuf/proto"
	"pgregory.net/rapid"
	"verifharness/internal/pstub"
)

// ---- pingpong ---------------------------------------------------------------------------------------

var pingTypes = []reflect.Type{typ(&pingpb.Ping{})}
var pongTypes = []reflect.Type{typ(&pingpb.Pong{})}

func pingPool() *pool { return (&pool{}).addStrs("hey", "", "there") }

var tgPingHandler = register(&target{
	name:    "pingpong-handler",
	inTypes: pingTypes,
	gen: func(t *rapid.T) kase {
		var c kase
		c.In, c.Gen = genStream(t, streamSpec{types: pingTypes, pool: pingPool(), honest: func(t *rapid.T) []proto.Message {
			n := rapid.IntRange(1, 4).Draw(t, "npings")
			var out []proto.Message
			for i := 0; i < n; i++ {
				out = append(out, &pingpb.Ping{Greeting: rapid.SampledFrom([]string{"hey", "there", ""}).Draw(t, "greet")})
			}
			return out
		}})
		return c
	},
	run: func(c *kase) []string {
		ids()
		svc := pingpong.New(pstub.NewScriptedStreamer(), logger, nil)
		ctx, cancel := bg()
		defer cancel()
		g0 := runtime.NumGoroutine()
		st := pstub.NewByteStream(c.In)
		err := handlerOf(svc.Protocol(), "pingpong")(ctx, peerOf(peerID), st)
		cls := []string{}
		if err != nil {
			cls = append(cls, "err")
		}
		if len(st.Written()) > 0 {
			cls = append(cls, "ponged")
		}
		settle(g0, time.Second)
		return cls
	},
})

func TestC37_PingpongHandler(t *testing.T) { check(t, tgPingHandler, 400) }

var tgPingClient = register(&target{
	name:    "pingpong-Ping",
	reTypes: pongTypes,
	client:  true,
	gen: func(t *rapid.T) kase {
		var c kase
		knob(t, &c, "nmsgs", 3)
		r, g := genStream(t, streamSpec{types: pongTypes, pool: pingPool(), honest: func(t *rapid.T) []proto.Message {
			return []proto.Message{&pingpb.Pong{Response: "{hey}"}, &pingpb.Pong{Response: "{there}"}}
		}})
		c.Replies, c.Gen = [][]byte{r}, g
		return c
	},
	run: func(c *kase) []string {
		ids()
		svc := pingpong.New(pstub.NewScriptedStreamer(c.Replies...), logger, nil)
		ctx, cancel := bg()
		defer cancel()
		g0 := runtime.NumGoroutine()
		_, err := svc.Ping(ctx, peerID.overlay, []string{"hey", "there", "again"}[:c.k("nmsgs")]...)
		cls := []string{}
		if err != nil {
			cls = append(cls, "err")
		} else {
			cls = append(cls, "rtt")
		}
		settle(g0, time.Second)
		return cls
	},
})

func TestC37_PingpongClient(t *testing.T) { check(t, tgPingClient, 400) }

// ---- traffic (pseudosettle protocol in front of the real traffic service) -----------------------------

const chainID = int64(5)

type trEnv struct {
	svc   *traffic.Service
	proto *trafficprotocol.Service
	ss    *pstub.ScriptedStreamer
	st    storage.StateStorer
	mk    func() (*traffic.Service, *trafficprotocol.Service)
	leak  int // goroutines that traffic.New starts and that cannot be stopped (2 per instance)
}

func ethOf(i *identity) common.Address {
	a, err := i.signer.EthereumAddress()
	if err != nil {
		panic("harness: eth address: " + err.Error())
	}
	return a
}

func signedCheque(from, to *identity, amount int64) *cheque.SignedCheque {
	c := cheque.Cheque{Recipient: ethOf(to), Beneficiary: ethOf(from), CumulativePayout: big.NewInt(amount)}
	sig, err := cheque.NewChequeSigner(from.signer, chainID).Sign(&c)
	if err != nil {
		panic("harness: sign cheque: " + err.Error())
	}
	return &cheque.SignedCheque{Cheque: c, Signature: sig}
}

// newTraffic wires the settlement stack the way pkg/node InitTraffic does. Knob
// "known": 1 = the peer has completed the init handshake before (its beneficiary
// is known), 2 = additionally a cheque of the peer was received before.
func newTraffic(c *kase) *trEnv {
	ids()
	st := newStateStore()
	ss := pstub.NewScriptedStreamer(c.Replies...)
	nodeEth := ethOf(nodeID)
	zero := func(common.Address) (*big.Int, error) { return big.NewInt(0), nil }
	chain := chainmock.New(
		chainmock.WithBalanceOf(func(common.Address) (*big.Int, error) { return big.NewInt(1 << 40), nil }),
		chainmock.WithRetrievedTotal(zero), chainmock.WithTransferredTotal(zero),
		chainmock.WithTransAmount(func(_, _ common.Address) (*big.Int, error) { return big.NewInt(0), nil }),
		chainmock.WithRetrievedAddress(func(common.Address) ([]common.Address, error) { return nil, nil }),
		chainmock.WithTransferredAddress(func(common.Address) ([]common.Address, error) { return nil, nil }),
	)
	mk := func() (*traffic.Service, *trafficprotocol.Service) {
		cs := cheque.NewChequeStore(st, nodeEth, cheque.RecoverCheque, chainID)
		cash := cheque.NewCashoutService(st, nil, chain, cs, common.HexToAddress("0x01"))
		ab := traffic.NewAddressBook(st)
		proto := trafficprotocol.New(ss, logger, nodeEth)
		svc := traffic.New(logger, nodeEth, st, chain, cs, cash, p2pmock.New(), ab, cheque.NewChequeSigner(nodeID.signer, chainID), proto, chainID, nopSubPub{})
		proto.SetTraffic(svc)
		svc.SetNotifyPaymentFunc(func(boson.Address, *big.Int) error { return nil })
		_ = svc.Init()
		return svc, proto
	}
	svc, proto := mk()
	e := &trEnv{svc: svc, proto: proto, ss: ss, st: st, mk: mk}
	if c.k("known") >= 1 {
		_ = svc.Handshake(peerID.overlay, ethOf(peerID), cheque.SignedCheque{})
	}
	if c.k("known") >= 2 {
		_ = svc.ReceiveCheque(context.Background(), peerID.overlay, signedCheque(peerID, nodeID, 1000))
	}
	return e
}

func (e *trEnv) use() {
	ctx := context.Background()
	for _, svc := range []*traffic.Service{e.svc, nil} {
		if svc == nil {
			// restart over the same store
			svc, _ = e.mk()
			e.leak += 2
		}
		_, _ = svc.TrafficCheques()
		_, _ = svc.TrafficInfo()
		_, _ = svc.AvailableBalance()
		for _, p := range []boson.Address{peerID.overlay, otherID.overlay} {
			if c, err := svc.LastReceivedCheque(p); err == nil && c != nil {
				_ = c.String()
				_, _ = json.Marshal(c)
			}
			_, _ = svc.LastSentCheque(p)
			_, _ = svc.TotalSent(p)
			_, _ = svc.TotalReceived(p)
			_, _ = svc.GetPeerBalance(p)
			_, _ = svc.GetUnPaidBalance(p)
			_, _ = svc.TransferTraffic(p)
			_, _ = svc.RetrieveTraffic(p)
			_, _ = svc.CashCheque(ctx, p)
		}
		_ = svc.PutRetrieveTraffic(peerID.overlay, big.NewInt(5000))
		_ = svc.Pay(ctx, peerID.overlay, big.NewInt(4096))
	}
}

func jsonOf(v interface{}) []byte { b, _ := json.Marshal(v); return b }

var trPoolCache *pool

func trPool() *pool {
	if trPoolCache != nil {
		return trPoolCache
	}
	ids()
	p := &pool{}
	trPoolCache = p
	peerEth, nodeEth, otherEth := ethOf(peerID), ethOf(nodeID), ethOf(otherID)
	good := jsonOf(signedCheque(peerID, nodeID, 2000))
	var generic map[string]interface{}
	_ = json.Unmarshal(good, &generic)
	variant := func(f func(m map[string]interface{})) []byte {
		m := map[string]interface{}{}
		for k, v := range generic {
			m[k] = v
		}
		f(m)
		return jsonOf(m)
	}
	cheques := [][]byte{
		good, good,
		jsonOf(signedCheque(peerID, nodeID, 500)),   // not increasing after 1000
		jsonOf(signedCheque(otherID, nodeID, 3000)), // foreign issuer
		jsonOf(signedCheque(peerID, otherID, 3000)), // foreign recipient
		jsonOf(signedCheque(nodeID, peerID, 3000)),  // one of our own cheques sent back
		[]byte("null"), []byte("{}"), []byte("[]"), []byte("0"), []byte(`""`), []byte("{"), []byte(""),
		variant(func(m map[string]interface{}) { m["CumulativePayout"] = nil }),
		variant(func(m map[string]interface{}) { delete(m, "CumulativePayout") }),
		variant(func(m map[string]interface{}) { m["CumulativePayout"] = -5 }),
		variant(func(m map[string]interface{}) { m["CumulativePayout"] = "12" }),
		variant(func(m map[string]interface{}) { m["CumulativePayout"] = 1e300 }),
		variant(func(m map[string]interface{}) { m["Signature"] = nil }),
		variant(func(m map[string]interface{}) { m["Signature"] = "" }),
		variant(func(m map[string]interface{}) { m["Signature"] = "AAAA" }),
		variant(func(m map[string]interface{}) { m["Recipient"] = nil }),
		variant(func(m map[string]interface{}) { m["Recipient"] = "0x12" }),
		variant(func(m map[string]interface{}) { m["Beneficiary"] = 7 }),
	}
	p.addBytes(peerEth.Bytes(), nodeEth.Bytes(), otherEth.Bytes())
	p.addBytes(cheques...)
	p.field("SignedCheque", cheques...)
	p.field("Address", peerEth.Bytes(), peerEth.Bytes(), nodeEth.Bytes(), otherEth.Bytes(), nil)
	return p
}

var emitTypes = []reflect.Type{typ(&tpb.EmitCheque{})}

func honestEmit(t *rapid.T) []proto.Message {
	amt := rapid.SampledFrom([]int64{1, 999, 1000, 1001, 2000, 1 << 40}).Draw(t, "amount")
	return []proto.Message{&tpb.EmitCheque{Address: ethOf(peerID).Bytes(), SignedCheque: jsonOf(signedCheque(peerID, nodeID, amt))}}
}

func emitOf(b []byte) *tpb.EmitCheque {
	m, _ := decodeFrames(b, emitTypes)
	if len(m) < 1 || m[0] == nil {
		return nil
	}
	return m[0].(*tpb.EmitCheque)
}

// JSON that unmarshals into a nil *SignedCheque without error
func isJSONNull(b []byte) bool {
	var sc *cheque.SignedCheque
	return json.Unmarshal(b, &sc) == nil && sc == nil
}

var tgTrafficHandler = register(&target{
	name:    "traffic-handler",
	inTypes: emitTypes,
	gen: func(t *rapid.T) kase {
		var c kase
		knob(t, &c, "known", 2)
		c.In, c.Gen = genStream(t, streamSpec{types: emitTypes, pool: trPool(), honest: honestEmit})
		return c
	},
	run: func(c *kase) []string {
		e := newTraffic(c)
		ctx, cancel := bg()
		defer cancel()
		g0 := runtime.NumGoroutine()
		st := pstub.NewByteStream(c.In)
		err := handlerOf(e.proto.Protocol(), "traffic")(ctx, peerOf(peerID), st)
		cls := []string{}
		if err != nil {
			cls = append(cls, "err")
		} else {
			cls = append(cls, "cheque-accepted")
		}
		settle(g0, time.Second)
		e.use()
		settle(g0+e.leak, time.Second)
		return cls
	},
	shapes: []shape{{
		sig: "C37/traffic-null-cheque",
		match: func(c *kase) bool {
			m := emitOf(c.In)
			return m != nil && c.k("known") >= 1 && isJSONNull(m.SignedCheque)
		},
		fix: func(c *kase) {
			m, rest := decodeFrames(c.In, emitTypes)
			m[0].(*tpb.EmitCheque).SignedCheque = []byte("{}")
			c.In = encodeFrames(m, rest)
		},
		witness: func() kase {
			return kase{Target: "traffic-handler", Gen: "witness", K: map[string]int{"known": 1},
				In: pstub.Frame(mustMarshal(&tpb.EmitCheque{SignedCheque: []byte("null")}))}
		},
	}},
})

func TestC37_TrafficHandler(t *testing.T) { check(t, tgTrafficHandler, 240) }

var tgTrafficInitHandler = register(&target{
	name:    "traffic-initHandler",
	inTypes: emitTypes,
	gen: func(t *rapid.T) kase {
		var c kase
		knob(t, &c, "known", 2)
		c.In, c.Gen = genStream(t, streamSpec{types: emitTypes, pool: trPool(), honest: honestEmit})
		return c
	},
	run: func(c *kase) []string {
		e := newTraffic(c)
		ctx, cancel := bg()
		defer cancel()
		g0 := runtime.NumGoroutine()
		st := pstub.NewByteStream(c.In)
		err := handlerOf(e.proto.Protocol(), "init")(ctx, peerOf(peerID), st)
		cls := []string{}
		if err != nil {
			cls = append(cls, "err")
		}
		if len(st.Written()) > 0 {
			cls = append(cls, "answered")
		}
		settle(g0, time.Second)
		e.use()
		settle(g0+e.leak, time.Second)
		return cls
	},
})

func TestC37_TrafficInitHandler(t *testing.T) { check(t, tgTrafficInitHandler, 300) }

var tgTrafficInit = register(&target{
	name:    "traffic-init",
	reTypes: emitTypes,
	client:  true,
	gen: func(t *rapid.T) kase {
		var c kase
		knob(t, &c, "known", 2)
		r, g := genStream(t, streamSpec{types: emitTypes, pool: trPool(), honest: honestEmit})
		c.Replies, c.Gen = [][]byte{r}, g
		return c
	},
	run: func(c *kase) []string {
		e := newTraffic(c)
		ctx, cancel := bg()
		defer cancel()
		g0 := runtime.NumGoroutine()
		// ConnectOut of the protocol spec: what libp2p calls after dialling a peer
		err := e.proto.Protocol().ConnectOut(ctx, peerOf(peerID))
		cls := []string{}
		if err != nil {
			cls = append(cls, "err")
		} else {
			cls = append(cls, "handshake-done")
		}
		settle(g0, time.Second)
		e.use()
		settle(g0+e.leak, time.Second)
		return cls
	},
})

func TestC37_TrafficInit(t *testing.T) { check(t, tgTrafficInit, 240) }
