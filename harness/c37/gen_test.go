package c37

import (
	"encoding/binary"
	"encoding/hex"
	"reflect"

	"github.com/gogo/protobuf/proto"
	"pgregory.net/rapid"
	"verifharness/internal/pstub"
)

// pool holds the values that are meaningful for one target (own address,
// connected peers, known roots, valid signatures ...). Hostile field values are
// drawn from it about half of the time so that the deep paths are reached.
type pool struct {
	bytes   [][]byte
	strs    []string
	ints    []int64
	byField map[string][][]byte // values that make sense for the field of that name (used 6 times in 10)
	intsBy  map[string][]int64
}

func (p *pool) field(name string, b ...[]byte) *pool {
	if p.byField == nil {
		p.byField = map[string][][]byte{}
	}
	p.byField[name] = append(p.byField[name], b...)
	return p
}

func (p *pool) intField(name string, v ...int64) *pool {
	if p.intsBy == nil {
		p.intsBy = map[string][]int64{}
	}
	p.intsBy[name] = append(p.intsBy[name], v...)
	return p
}

func (p *pool) addBytes(b ...[]byte) *pool { p.bytes = append(p.bytes, b...); return p }
func (p *pool) addStrs(s ...string) *pool  { p.strs = append(p.strs, s...); return p }
func (p *pool) addInts(i ...int64) *pool   { p.ints = append(p.ints, i...); return p }

var hostileLens = []int{0, 0, 1, 2, 7, 8, 9, 19, 20, 21, 31, 32, 32, 33, 63, 64, 65, 96, 255, 256, 257}

func genBytes(t *rapid.T, p *pool) []byte {
	switch k := rapid.IntRange(0, 9).Draw(t, "bk"); {
	case k <= 3 && len(p.bytes) > 0:
		b := append([]byte(nil), rapid.SampledFrom(p.bytes).Draw(t, "bpool")...)
		// sometimes a near miss of the pooled value
		switch rapid.IntRange(0, 9).Draw(t, "bmiss") {
		case 0:
			if len(b) > 0 {
				b = b[:len(b)-1]
			}
		case 1:
			b = append(b, 0)
		case 2:
			if len(b) > 0 {
				i := rapid.IntRange(0, len(b)-1).Draw(t, "bflip")
				b[i] ^= 1 << uint(rapid.IntRange(0, 7).Draw(t, "bbit"))
			}
		case 3:
			// a proper prefix of the pooled value (same leading bytes, other length)
			if len(b) > 1 {
				b = b[:rapid.IntRange(1, len(b)-1).Draw(t, "bprefix")]
			}
		}
		return b
	case k == 4:
		return nil
	case k == 5:
		n := rapid.IntRange(258, 3000).Draw(t, "blong")
		return rapid.SliceOfN(rapid.Byte(), n, n).Draw(t, "bl")
	case k == 6:
		n := rapid.SampledFrom(hostileLens).Draw(t, "bfl")
		fill := rapid.SampledFrom([]byte{0x00, 0xff, 0x80, 0x01}).Draw(t, "bfill")
		b := make([]byte, n)
		for i := range b {
			b[i] = fill
		}
		return b
	default:
		n := rapid.SampledFrom(hostileLens).Draw(t, "bn")
		return rapid.SliceOfN(rapid.Byte(), n, n).Draw(t, "b")
	}
}

func genStr(t *rapid.T, p *pool) string {
	switch k := rapid.IntRange(0, 9).Draw(t, "sk"); {
	case k <= 2 && len(p.strs) > 0:
		return rapid.SampledFrom(p.strs).Draw(t, "spool")
	case k <= 4 && len(p.bytes) > 0:
		return hex.EncodeToString(rapid.SampledFrom(p.bytes).Draw(t, "shexpool"))
	case k == 5:
		return ""
	case k == 6:
		return rapid.SampledFrom([]string{"zz", "0", "abc", "0x00", "g0", "null", "-", "00-00", "_", "\x00", "\xff\xfe", "%s%d%v", "../..", "\n"}).Draw(t, "sbad")
	case k == 7:
		return hex.EncodeToString(genBytes(t, p))
	case k == 8:
		return string(genBytes(t, p))
	default:
		n := rapid.IntRange(100, 400).Draw(t, "slong")
		return string(rapid.SliceOfN(rapid.ByteRange('a', 'f'), n, n).Draw(t, "sl"))
	}
}

var hostileInts = []int64{0, 1, 2, 3, -1, -2, 7, 8, 9, 10, 11, 29, 30, 31, 32, 127, 128, 255, 256, 1 << 20, 1<<31 - 1, -1 << 31, 1 << 31, 1<<32 - 1, 1 << 32, 1<<63 - 1, -1 << 63}

func genInt(t *rapid.T, p *pool) int64 {
	if len(p.ints) > 0 && rapid.IntRange(0, 2).Draw(t, "ipool") == 0 {
		return rapid.SampledFrom(p.ints).Draw(t, "ip")
	}
	if rapid.IntRange(0, 3).Draw(t, "irand") == 0 {
		return rapid.Int64().Draw(t, "i64")
	}
	return rapid.SampledFrom(hostileInts).Draw(t, "ih")
}

func genCount(t *rapid.T) int {
	if rapid.IntRange(0, 19).Draw(t, "many") == 0 {
		return rapid.IntRange(9, 45).Draw(t, "nmany")
	}
	return rapid.IntRange(0, 4).Draw(t, "n")
}

var protoMsgType = reflect.TypeOf((*proto.Message)(nil)).Elem()

// genMsg builds a message of struct type ty field by field.
func genMsg(t *rapid.T, ty reflect.Type, p *pool, depth int) proto.Message {
	v := reflect.New(ty)
	fillStruct(t, v.Elem(), p, depth)
	return v.Interface().(proto.Message)
}

func fillStruct(t *rapid.T, v reflect.Value, p *pool, depth int) {
	for i := 0; i < v.NumField(); i++ {
		f := v.Field(i)
		if !f.CanSet() {
			continue
		}
		// a field is left at its zero value (absent on the wire in proto3) 1 time in 6
		if rapid.IntRange(0, 5).Draw(t, "absent") == 0 {
			continue
		}
		name := v.Type().Field(i).Name
		if cands := p.byField[name]; len(cands) > 0 && f.Kind() == reflect.Slice && f.Type().Elem().Kind() == reflect.Uint8 &&
			rapid.IntRange(0, 9).Draw(t, "byfield") < 6 {
			f.SetBytes(append([]byte(nil), rapid.SampledFrom(cands).Draw(t, "fieldval")...))
			continue
		}
		if cands := p.intsBy[name]; len(cands) > 0 && rapid.IntRange(0, 9).Draw(t, "intbyfield") < 6 {
			switch f.Kind() {
			case reflect.Int32, reflect.Int64, reflect.Uint32, reflect.Uint64:
				setInt(f, rapid.SampledFrom(cands).Draw(t, "fieldint"))
				continue
			}
		}
		fillValue(t, f, p, depth)
	}
}

func fillValue(t *rapid.T, f reflect.Value, p *pool, depth int) {
	switch f.Kind() {
	case reflect.Slice:
		et := f.Type().Elem()
		switch {
		case et.Kind() == reflect.Uint8:
			f.SetBytes(genBytes(t, p))
		case et.Kind() == reflect.Slice && et.Elem().Kind() == reflect.Uint8: // [][]byte
			n := genCount(t)
			s := reflect.MakeSlice(f.Type(), 0, n)
			for j := 0; j < n; j++ {
				s = reflect.Append(s, reflect.ValueOf(genBytes(t, p)))
			}
			f.Set(s)
		case et.Kind() == reflect.Ptr && et.Elem().Kind() == reflect.Struct: // []*Msg
			n := genCount(t)
			if depth <= 0 {
				n = 0
			}
			s := reflect.MakeSlice(f.Type(), 0, n)
			for j := 0; j < n; j++ {
				e := reflect.New(et.Elem())
				fillStruct(t, e.Elem(), p, depth-1)
				s = reflect.Append(s, e)
			}
			f.Set(s)
		case et.Kind() == reflect.Int32 || et.Kind() == reflect.Int64 || et.Kind() == reflect.Uint32 || et.Kind() == reflect.Uint64:
			n := genCount(t)
			s := reflect.MakeSlice(f.Type(), 0, n)
			for j := 0; j < n; j++ {
				e := reflect.New(et).Elem()
				setInt(e, genInt(t, p))
				s = reflect.Append(s, e)
			}
			f.Set(s)
		}
	case reflect.String:
		f.SetString(genStr(t, p))
	case reflect.Int32, reflect.Int64, reflect.Uint32, reflect.Uint64:
		setInt(f, genInt(t, p))
	case reflect.Bool:
		f.SetBool(rapid.Bool().Draw(t, "bool"))
	case reflect.Ptr:
		if f.Type().Elem().Kind() == reflect.Struct {
			if depth <= 0 || rapid.IntRange(0, 3).Draw(t, "nilsub") == 0 {
				return // nil sub-message
			}
			e := reflect.New(f.Type().Elem())
			fillStruct(t, e.Elem(), p, depth-1)
			f.Set(e)
		}
	case reflect.Map:
		if f.Type().Key().Kind() == reflect.String && f.Type().Elem().Kind() == reflect.Slice {
			n := genCount(t)
			m := reflect.MakeMapWithSize(f.Type(), n)
			for j := 0; j < n; j++ {
				m.SetMapIndex(reflect.ValueOf(genStr(t, p)), reflect.ValueOf(genBytes(t, p)))
			}
			f.Set(m)
		}
	}
}

func setInt(f reflect.Value, x int64) {
	switch f.Kind() {
	case reflect.Int32:
		f.SetInt(int64(int32(x)))
	case reflect.Int64:
		f.SetInt(x)
	case reflect.Uint32:
		f.SetUint(uint64(uint32(x)))
	case reflect.Uint64:
		f.SetUint(uint64(x))
	}
}

func mustMarshal(m proto.Message) []byte {
	b, err := proto.Marshal(m)
	if err != nil {
		panic("harness: marshal: " + err.Error())
	}
	return b
}

// ---- raw generator ---------------------------------------------------------------

func genRaw(t *rapid.T) []byte {
	switch rapid.IntRange(0, 9).Draw(t, "rawk") {
	case 0:
		return nil
	case 1, 2:
		n := rapid.IntRange(1, 64).Draw(t, "rn")
		return rapid.SliceOfN(rapid.Byte(), n, n).Draw(t, "r")
	case 3:
		n := rapid.IntRange(65, 2048).Draw(t, "rn2")
		return rapid.SliceOfN(rapid.Byte(), n, n).Draw(t, "r2")
	case 4, 5:
		// a varint length prefix around / beyond the limit followed by a few bytes
		d := rapid.SampledFrom([]uint64{0, 1, 127, 128, 16383, 16384, maxFrame - 1, maxFrame, maxFrame + 1, 1<<31 - 1, 1 << 31, 1<<32 - 1, 1 << 32, 1<<63 - 1, 1 << 63, 1<<64 - 1}).Draw(t, "declared")
		n := rapid.IntRange(0, 64).Draw(t, "tail")
		return pstub.FrameWithLen(d, rapid.SliceOfN(rapid.Byte(), n, n).Draw(t, "rt"))
	case 6:
		// over-long / unterminated varint
		n := rapid.IntRange(1, 12).Draw(t, "vl")
		b := make([]byte, n)
		for i := range b {
			b[i] = 0xff
		}
		if rapid.Bool().Draw(t, "term") {
			b = append(b, 0x01)
		}
		return b
	case 7:
		// truncated frame: declares more than it carries
		n := rapid.IntRange(0, 200).Draw(t, "have")
		more := rapid.IntRange(1, 5000).Draw(t, "more")
		return pstub.FrameWithLen(uint64(n+more), rapid.SliceOfN(rapid.Byte(), n, n).Draw(t, "trunc"))
	case 8:
		// several tiny frames (empty messages)
		n := rapid.IntRange(1, 6).Draw(t, "nempty")
		var b []byte
		for i := 0; i < n; i++ {
			k := rapid.IntRange(0, 3).Draw(t, "el")
			b = append(b, pstub.Frame(rapid.SliceOfN(rapid.Byte(), k, k).Draw(t, "ef"))...)
		}
		return b
	default:
		// a full-size frame at the limit (rare, 1 MiB of one byte value)
		if rapid.IntRange(0, 5).Draw(t, "big") != 0 {
			n := rapid.IntRange(1, 300).Draw(t, "rn3")
			return pstub.Frame(rapid.SliceOfN(rapid.Byte(), n, n).Draw(t, "r3"))
		}
		fill := rapid.Byte().Draw(t, "bigfill")
		b := make([]byte, maxFrame)
		for i := range b {
			b[i] = fill
		}
		return pstub.Frame(b)
	}
}

// ---- wire-level mutation ------------------------------------------------------------

type wireField struct {
	num uint64
	wt  uint64
	val []byte // varint: encoded varint; 64/32-bit: raw; bytes: payload (without length)
}

func parseWire(b []byte) ([]wireField, bool) {
	var out []wireField
	for len(b) > 0 {
		key, n := binary.Uvarint(b)
		if n <= 0 {
			return nil, false
		}
		b = b[n:]
		f := wireField{num: key >> 3, wt: key & 7}
		switch f.wt {
		case 0:
			_, m := binary.Uvarint(b)
			if m <= 0 {
				return nil, false
			}
			f.val = b[:m]
			b = b[m:]
		case 1:
			if len(b) < 8 {
				return nil, false
			}
			f.val = b[:8]
			b = b[8:]
		case 5:
			if len(b) < 4 {
				return nil, false
			}
			f.val = b[:4]
			b = b[4:]
		case 2:
			l, m := binary.Uvarint(b)
			if m <= 0 || uint64(len(b)-m) < l {
				return nil, false
			}
			f.val = b[m : m+int(l)]
			b = b[m+int(l):]
		default:
			return nil, false
		}
		out = append(out, f)
	}
	return out, true
}

func uvar(x uint64) []byte {
	var l [binary.MaxVarintLen64]byte
	n := binary.PutUvarint(l[:], x)
	return append([]byte(nil), l[:n]...)
}

func encodeWire(fs []wireField) []byte {
	var out []byte
	for _, f := range fs {
		out = append(out, uvar(f.num<<3|f.wt)...)
		if f.wt == 2 {
			out = append(out, uvar(uint64(len(f.val)))...)
		}
		out = append(out, f.val...)
	}
	return out
}

// mutateWire changes exactly one thing in a serialised message (possibly inside a
// nested message).
func mutateWire(t *rapid.T, b []byte, p *pool, depth int) []byte {
	fs, ok := parseWire(b)
	if !ok || len(fs) == 0 {
		// nothing to pick: add a field instead
		return append(append([]byte(nil), b...), encodeWire([]wireField{{num: uint64(rapid.IntRange(1, 9).Draw(t, "addnum")), wt: 2, val: genBytes(t, p)}})...)
	}
	i := rapid.IntRange(0, len(fs)-1).Draw(t, "mfield")
	f := fs[i]
	f.val = append([]byte(nil), f.val...)
	op := rapid.IntRange(0, 9).Draw(t, "mop")
	switch {
	case op == 0: // drop
		fs = append(fs[:i:i], fs[i+1:]...)
		return encodeWire(fs)
	case op == 1: // duplicate (last one wins for scalars, repeated grows, sub-messages merge)
		fs = append(fs[:i+1:i+1], append([]wireField{f}, fs[i+1:]...)...)
		return encodeWire(fs)
	case op == 2: // retype
		f.wt = rapid.SampledFrom([]uint64{0, 1, 2, 5}).Draw(t, "mwt")
		switch f.wt {
		case 0:
			f.val = uvar(uint64(genInt(t, p)))
		case 1:
			f.val = make([]byte, 8)
		case 5:
			f.val = make([]byte, 4)
		}
	case op == 3: // renumber
		f.num = uint64(rapid.IntRange(1, 12).Draw(t, "mnum"))
	case f.wt == 0:
		f.val = uvar(uint64(genInt(t, p)))
	case f.wt == 2:
		if depth > 0 && len(f.val) > 0 && rapid.IntRange(0, 2).Draw(t, "mnest") == 0 {
			if _, ok := parseWire(f.val); ok {
				f.val = mutateWire(t, f.val, p, depth-1)
				break
			}
		}
		switch rapid.IntRange(0, 5).Draw(t, "mbytes") {
		case 0:
			f.val = nil
		case 1:
			if len(f.val) > 0 {
				f.val = f.val[:rapid.IntRange(0, len(f.val)-1).Draw(t, "mtrunc")]
			}
		case 2:
			n := rapid.IntRange(1, 40).Draw(t, "mext")
			f.val = append(f.val, rapid.SliceOfN(rapid.Byte(), n, n).Draw(t, "mextb")...)
		case 3:
			if len(f.val) > 0 {
				j := rapid.IntRange(0, len(f.val)-1).Draw(t, "mflip")
				f.val[j] ^= 1 << uint(rapid.IntRange(0, 7).Draw(t, "mbit"))
			}
		default:
			f.val = genBytes(t, p)
		}
	}
	fs[i] = f
	return encodeWire(fs)
}

// ---- stream generator ----------------------------------------------------------------

// streamSpec says how one direction of one stream is generated.
type streamSpec struct {
	types  []reflect.Type
	honest func(t *rapid.T) []proto.Message // a well-formed frame sequence a real peer could send
	pool   *pool
}

// genStream returns hostile bytes for one stream and the generator used.
func genStream(t *rapid.T, s streamSpec) ([]byte, string) {
	mode := rapid.SampledFrom([]string{"raw", "framed", "framed", "framed", "mutated", "mutated"}).Draw(t, "mode")
	switch mode {
	case "raw":
		return genRaw(t), "raw"
	case "framed":
		var out []byte
		n := 1
		if len(s.types) > 1 {
			n = rapid.IntRange(1, len(s.types)).Draw(t, "nframes")
		}
		if rapid.IntRange(0, 5).Draw(t, "extraframes") == 0 {
			n += rapid.IntRange(1, 3).Draw(t, "nextra")
		}
		for i := 0; i < n; i++ {
			ty := s.types[len(s.types)-1]
			if i < len(s.types) {
				ty = s.types[i]
			}
			// an honest frame in front of the hostile one lets later frames be reached
			if s.honest != nil && i < n-1 && rapid.Bool().Draw(t, "honestprefix") {
				h := s.honest(t)
				if i < len(h) {
					out = append(out, pstub.Frame(mustMarshal(h[i]))...)
					continue
				}
			}
			out = append(out, pstub.Frame(mustMarshal(genMsg(t, ty, s.pool, 2)))...)
		}
		if rapid.IntRange(0, 7).Draw(t, "trail") == 0 {
			k := rapid.IntRange(1, 16).Draw(t, "ntrail")
			out = append(out, rapid.SliceOfN(rapid.Byte(), k, k).Draw(t, "trailb")...)
		}
		return out, "framed"
	default:
		if s.honest == nil {
			m := genMsg(t, s.types[0], s.pool, 2)
			return pstub.Frame(mutateWire(t, mustMarshal(m), s.pool, 2)), "mutated"
		}
		h := s.honest(t)
		if len(h) == 0 {
			return nil, "mutated"
		}
		which := rapid.IntRange(0, len(h)-1).Draw(t, "mutframe")
		var out []byte
		for i, m := range h {
			b := mustMarshal(m)
			if i == which {
				b = mutateWire(t, b, s.pool, 2)
			}
			out = append(out, pstub.Frame(b)...)
		}
		return out, "mutated"
	}
}

// knob draws a small named setup integer.
func knob(t *rapid.T, c *kase, name string, max int) int {
	v := rapid.IntRange(0, max).Draw(t, "k-"+name)
	if c.K == nil {
		c.K = map[string]int{}
	}
	c.K[name] = v
	return v
}

func addr32(tag byte) []byte {
	b := make([]byte, 32)
	for i := range b {
		b[i] = tag
	}
	return b
}
