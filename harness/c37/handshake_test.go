package c37

import (
	"reflect"
	"runtime"
	"testing"
	"time"

	"github.com/gauss-project/aurorafs/pkg/aurora"
	"github.com/gauss-project/aurorafs/pkg/p2p"
	"github.com/gauss-project/aurorafs/pkg/p2p/libp2p/verifx"
	"github.com/gauss-project/aurorafs/pkg/topology/lightnode"
	"github.com/gogo/protobuf/proto"
	ma "github.com/multiformats/go-multiaddr"
	"pgregory.net/rapid"
	"verifharness/internal/pstub"
)

// passResolver is what the node uses when no NAT address is configured: the
// observed address is advertised unchanged.
type passResolver struct{}

func (passResolver) Resolve(m ma.Multiaddr) (ma.Multiaddr, error) { return m, nil }

type fixedPicker bool

func (f fixedPicker) Pick(p2p.Peer) bool { return bool(f) }

func hsPool() *pool {
	ids()
	p := &pool{}
	nodeFull, _ := nodeID.fullMA.MarshalBinary()
	peerFull, _ := peerID.fullMA.MarshalBinary()
	peerBare, _ := peerID.underlay.MarshalBinary()
	p.addBytes(nodeFull, peerFull, peerBare, peerID.overlay.Bytes(), nodeID.overlay.Bytes(), peerID.addr.Signature,
		[]byte{0x00}, []byte{0x01}, []byte{0x02}, []byte{0x03}, []byte{0xff})
	p.addInts(int64(networkID), int64(networkID)+1, 0)
	p.addStrs("hello", string(make([]byte, 141)))
	return p
}

func hsHonestAck(mode byte) *verifx.HandshakeAck {
	under, _ := peerID.fullMA.MarshalBinary()
	return &verifx.HandshakeAck{
		Address:        &verifx.HandshakeBzzAddress{Underlay: under, Overlay: peerID.overlay.Bytes(), Signature: peerID.addr.Signature},
		NetworkID:      networkID,
		NodeMode:       []byte{mode},
		WelcomeMessage: "hi",
	}
}

func hsHonestSyn() *verifx.HandshakeSyn {
	nodeFull, _ := nodeID.fullMA.MarshalBinary()
	return &verifx.HandshakeSyn{ObservedUnderlay: nodeFull}
}

func newHandshakeSvc(c *kase) (*verifx.HandshakeService, *lightnode.Container) {
	ids()
	ln := lightnode.NewContainer(nodeID.overlay)
	svc, err := verifx.NewHandshake(nodeID.signer, passResolver{}, nodeID.overlay, networkID, fullMode(), "welcome", nodeID.peerID, logger, ln, 1+c.k("lightlimit"))
	if err != nil {
		panic("harness: handshake.New: " + err.Error())
	}
	switch c.k("picker") {
	case 1:
		svc.SetPicker(fixedPicker(true))
	case 2:
		svc.SetPicker(fixedPicker(false))
	}
	return svc, ln
}

// what libp2p does with a successful handshake result
func useHandshakeInfo(i *aurora.AddressInfo) []string {
	if i == nil {
		return nil
	}
	cls := []string{"completed"}
	_ = i.NodeMode.IsFull()
	_ = i.NodeMode.IsBootNode()
	_ = i.NodeMode.String()
	_ = i.LightString()
	st := newStateStore()
	defer st.Close()
	bl := verifx.NewBlocklist(st)
	_, _ = bl.Exists(i.Address.Overlay)
	ab := newAddressBook(st)
	_ = ab.Put(i.Address.Overlay, *i.Address)
	useAddressBook(ab)
	return cls
}

// ---- Handle (inbound) --------------------------------------------------------------

var hsHandleTypes = []reflect.Type{typ(&verifx.HandshakeSyn{}), typ(&verifx.HandshakeAck{})}

var tgHandshakeHandle = register(&target{
	name:    "handshake-handle",
	inTypes: hsHandleTypes,
	gen: func(t *rapid.T) kase {
		var c kase
		knob(t, &c, "picker", 2)
		knob(t, &c, "lightlimit", 1)
		c.In, c.Gen = genStream(t, streamSpec{types: hsHandleTypes, pool: hsPool(), honest: func(t *rapid.T) []proto.Message {
			return []proto.Message{hsHonestSyn(), hsHonestAck(rapid.SampledFrom([]byte{0, 1, 1, 3}).Draw(t, "mode"))}
		}})
		return c
	},
	run: func(c *kase) []string {
		svc, _ := newHandshakeSvc(c)
		ctx, cancel := bg()
		defer cancel()
		g0 := runtime.NumGoroutine()
		st := pstub.NewByteStream(c.In)
		i, err := svc.Handle(ctx, st, peerID.underlay, peerID.peerID)
		var cls []string
		if err == nil {
			cls = useHandshakeInfo(i)
		} else {
			cls = append(cls, "err")
		}
		settle(g0, time.Second)
		return cls
	},
	shapes: []shape{{
		sig: "C37/handshake-ack-nil-address",
		match: func(c *kase) bool {
			// the second frame is an Ack without Address that Handle gets to read: the
			// first frame must be a Syn with a parseable underlay
			m, _ := decodeFrames(c.In, hsHandleTypes)
			if len(m) < 2 || m[0] == nil || m[1] == nil {
				return false
			}
			return m[1].(*verifx.HandshakeAck).Address == nil
		},
		fix: func(c *kase) {
			m, rest := decodeFrames(c.In, hsHandleTypes)
			m[1].(*verifx.HandshakeAck).Address = &verifx.HandshakeBzzAddress{}
			c.In = encodeFrames(m, rest)
		},
		witness: func() kase {
			ids()
			return kase{Target: "handshake-handle", Gen: "witness",
				In: pstub.Frames(mustMarshal(hsHonestSyn()), mustMarshal(&verifx.HandshakeAck{NetworkID: networkID, NodeMode: []byte{1}}))}
		},
	}},
})

func TestC37_HandshakeHandle(t *testing.T) { check(t, tgHandshakeHandle, 400) }

// ---- Handshake (outbound: the dialled peer answers with SynAck) ----------------------

var hsSynAckTypes = []reflect.Type{typ(&verifx.HandshakeSynAck{})}

func synAckOf(c *kase) *verifx.HandshakeSynAck {
	m, _ := decodeFrames(c.In, hsSynAckTypes)
	if len(m) < 1 || m[0] == nil {
		return nil
	}
	return m[0].(*verifx.HandshakeSynAck)
}

func fixSynAck(c *kase, f func(sa *verifx.HandshakeSynAck)) {
	m, rest := decodeFrames(c.In, hsSynAckTypes)
	f(m[0].(*verifx.HandshakeSynAck))
	c.In = encodeFrames(m, rest)
}

var tgHandshakeDial = register(&target{
	name:    "handshake-handshake",
	inTypes: hsSynAckTypes,
	gen: func(t *rapid.T) kase {
		var c kase
		c.In, c.Gen = genStream(t, streamSpec{types: hsSynAckTypes, pool: hsPool(), honest: func(t *rapid.T) []proto.Message {
			return []proto.Message{&verifx.HandshakeSynAck{Syn: hsHonestSyn(), Ack: hsHonestAck(rapid.SampledFrom([]byte{0, 1, 1, 3}).Draw(t, "mode"))}}
		}})
		return c
	},
	run: func(c *kase) []string {
		svc, _ := newHandshakeSvc(c)
		ctx, cancel := bg()
		defer cancel()
		g0 := runtime.NumGoroutine()
		st := pstub.NewByteStream(c.In)
		i, err := svc.Handshake(ctx, st, peerID.underlay, peerID.peerID)
		var cls []string
		if err == nil {
			cls = useHandshakeInfo(i)
		} else {
			cls = append(cls, "err")
		}
		settle(g0, time.Second)
		return cls
	},
	shapes: []shape{
		{
			sig:   "C37/handshake-synack-nil-syn",
			match: func(c *kase) bool { sa := synAckOf(c); return sa != nil && sa.Syn == nil },
			fix:   func(c *kase) { fixSynAck(c, func(sa *verifx.HandshakeSynAck) { sa.Syn = &verifx.HandshakeSyn{} }) },
			witness: func() kase {
				ids()
				return kase{Target: "handshake-handshake", Gen: "witness", In: pstub.Frame(mustMarshal(&verifx.HandshakeSynAck{Ack: hsHonestAck(1)}))}
			},
		},
		{
			sig:   "C37/handshake-synack-nil-ack",
			match: func(c *kase) bool { sa := synAckOf(c); return sa != nil && sa.Syn != nil && sa.Ack == nil },
			fix:   func(c *kase) { fixSynAck(c, func(sa *verifx.HandshakeSynAck) { sa.Ack = &verifx.HandshakeAck{} }) },
			witness: func() kase {
				ids()
				return kase{Target: "handshake-handshake", Gen: "witness", In: pstub.Frame(mustMarshal(&verifx.HandshakeSynAck{Syn: hsHonestSyn()}))}
			},
		},
		{
			sig: "C37/handshake-ack-nil-address",
			match: func(c *kase) bool {
				sa := synAckOf(c)
				return sa != nil && sa.Syn != nil && sa.Ack != nil && sa.Ack.Address == nil
			},
			fix: func(c *kase) {
				fixSynAck(c, func(sa *verifx.HandshakeSynAck) { sa.Ack.Address = &verifx.HandshakeBzzAddress{} })
			},
			witness: func() kase {
				ids()
				return kase{Target: "handshake-handshake", Gen: "witness",
					In: pstub.Frame(mustMarshal(&verifx.HandshakeSynAck{Syn: hsHonestSyn(), Ack: &verifx.HandshakeAck{NetworkID: networkID, NodeMode: []byte{1}}}))}
			},
		},
	},
})

func TestC37_HandshakeHandshake(t *testing.T) { check(t, tgHandshakeDial, 400) }
