package c31

import (
	"context"
	"fmt"
	"math/big"
	"sync"
	"testing"
	"time"

	"github.com/gauss-project/aurorafs/pkg/boson"
	"pgregory.net/rapid"
	"verifharness/internal/evid"
	"verifharness/internal/trafx"
)

// Concurrent payments. The accounting layer calls Pay from the goroutine of whichever retrieval
// crosses the threshold, so several Pay calls for one peer can be in flight, next to credits and
// to a payment to another peer whose cheque delivery is slow. The harness owns one piece of the
// schedule: the delivery to one chosen peer is parked (that is where the service holds that peer's
// lock) until all other goroutines have been started and given time to run into it.
// Oracle at quiescence: per peer the delivered cumulative payouts strictly increase and never exceed
// what was credited to that peer; the service's own record of what is owed equals the credits; the
// available balance equals chain balance + cashed (0) - credits.

type cop struct {
	K    string `json:"k"` // pay | credit
	Peer int    `json:"peer"`
	Amt  int    `json:"amt,omitempty"`
}

type ccase struct {
	Pre   []int   `json:"pre"`    // credit per peer before the concurrent phase
	Gated int     `json:"gated"`  // peer whose first delivery is parked (-1: none)
	G     [][]cop `json:"goroutines"`
	Thr   int     `json:"thr"`
}

func runConcPay(c ccase) (sig string, err error, overlapped bool) {
	store, release, e := trafx.AcquireStore()
	if e != nil {
		return sigHarness, e, false
	}
	defer release()
	ch := trafx.NewChain()
	bal := big.NewInt(1000000)
	ch.SetBalance(meAddr, bal)
	node, e := trafx.NewNode(meKey, store, ch)
	if e != nil {
		return sigHarness, e, false
	}
	s := &sut{node: node}
	if e := s.handshakes(); e != nil {
		return sigHarness, e, false
	}
	var mu sync.Mutex
	credited := [nPeers]*big.Int{big.NewInt(0), big.NewInt(0), big.NewInt(0)}
	credit := func(p int, a int64) error {
		if e := node.Svc.PutRetrieveTraffic(trafx.Overlay(p), big.NewInt(a)); e != nil {
			return e
		}
		mu.Lock()
		credited[p].Add(credited[p], big.NewInt(a))
		mu.Unlock()
		return nil
	}
	for p, a := range c.Pre {
		if a > 0 {
			if e := credit(p, int64(a)); e != nil {
				return sigHarness, e, false
			}
		}
	}
	thr := big.NewInt(int64(c.Thr))
	hold := make(chan struct{})
	reached := make(chan struct{}, 1)
	var once sync.Once
	if c.Gated >= 0 {
		gp := trafx.Overlay(c.Gated)
		node.Proto.Gate = func(peer boson.Address) {
			if peer.Equal(gp) {
				first := false
				once.Do(func() { first = true })
				if first {
					reached <- struct{}{}
					<-hold
				}
			}
		}
	}
	var wg sync.WaitGroup
	var firstErr error
	fail := func(e error) {
		mu.Lock()
		if firstErr == nil {
			firstErr = e
		}
		mu.Unlock()
	}
	parked := false
	if c.Gated >= 0 && c.Pre[c.Gated] >= c.Thr {
		wg.Add(1)
		go func() {
			defer wg.Done()
			if e, pan := s.pay(c.Gated, thr); pan != nil {
				fail(fmt.Errorf("Pay(peer %d) panicked: %v", c.Gated, pan))
			} else {
				_ = e
			}
		}()
		select {
		case <-reached:
			parked = true
		case <-time.After(5 * time.Second):
			// no cheque was due for the gated peer: the phase simply runs ungated
		}
	}
	start := make(chan struct{})
	for gi, g := range c.G {
		wg.Add(1)
		go func(gi int, g []cop) {
			defer wg.Done()
			<-start
			for _, o := range g {
				switch o.K {
				case "credit":
					if e := credit(o.Peer, int64(o.Amt)); e != nil {
						fail(fmt.Errorf("goroutine %d: credit(peer %d, %d): %v", gi, o.Peer, o.Amt, e))
						return
					}
				case "pay":
					if _, pan := s.pay(o.Peer, thr); pan != nil {
						fail(fmt.Errorf("goroutine %d: Pay(peer %d) panicked: %v", gi, o.Peer, pan))
						return
					}
				}
			}
		}(gi, g)
	}
	close(start)
	if parked {
		time.Sleep(30 * time.Millisecond) // lets the other goroutines run into the held lock; only detection depends on it
	}
	close(hold)
	done := make(chan struct{})
	go func() { wg.Wait(); close(done) }()
	select {
	case <-done:
	case <-time.After(60 * time.Second):
		return sigHarnessCap, fmt.Errorf("concurrent phase did not finish within 60 s"), parked
	}
	if firstErr != nil {
		return sigPanic, firstErr, parked
	}
	_ = context.Background
	// oracle
	last := [nPeers]*big.Int{big.NewInt(0), big.NewInt(0), big.NewInt(0)}
	for _, em := range node.Proto.Since(0) {
		p := -1
		for i := 0; i < nPeers; i++ {
			if em.Peer.Equal(trafx.Overlay(i)) {
				p = i
			}
		}
		if p < 0 || em.Cheque.CumulativePayout == nil {
			return sigFields, fmt.Errorf("cheque to an unknown peer or without amount: %+v", em), parked
		}
		cum := em.Cheque.CumulativePayout
		if cum.Cmp(last[p]) <= 0 {
			return sigNotIncr, fmt.Errorf("peer %d was sent cumulative payout %v after %v", p, cum, last[p]), parked
		}
		if cum.Cmp(credited[p]) > 0 {
			return sigExceeds, fmt.Errorf("peer %d was sent a cheque with cumulative payout %v, but only %v was ever credited to it", p, cum, credited[p]), parked
		}
		last[p] = cum
	}
	total := big.NewInt(0)
	for p := 0; p < nPeers; p++ {
		total.Add(total, credited[p])
		got, e := node.Svc.TotalReceived(trafx.Overlay(p))
		if e != nil {
			return sigHarness, e, parked
		}
		if got.Cmp(credited[p]) != 0 {
			return "C31/owed-record-differs-from-credits", fmt.Errorf("peer %d: the service records %v as traffic owed, %v was credited", p, got, credited[p]), parked
		}
	}
	avail, e := node.Svc.AvailableBalance()
	if e != nil {
		return sigAvailable, e, parked
	}
	if want := new(big.Int).Sub(bal, total); avail.Cmp(want) != 0 {
		return sigAvailable, fmt.Errorf("AvailableBalance() = %v after the concurrent phase, want chain balance %v - owed %v = %v", avail, bal, total, want), parked
	}
	return "", nil, parked
}

func genConcPay(t *rapid.T) ccase {
	c := ccase{Thr: rapid.SampledFrom([]int{1, 10, 50}).Draw(t, "thr"), Gated: rapid.SampledFrom([]int{0, 0, 1, 2, -1}).Draw(t, "gated")}
	for p := 0; p < nPeers; p++ {
		c.Pre = append(c.Pre, rapid.SampledFrom([]int{0, 10, 100, 100}).Draw(t, "pre"))
	}
	opGen := rapid.Custom(func(t *rapid.T) cop {
		o := cop{K: rapid.SampledFrom([]string{"pay", "pay", "pay", "credit"}).Draw(t, "k"), Peer: rapid.SampledFrom([]int{1, 1, 1, 0, 2}).Draw(t, "peer")}
		if o.K == "credit" {
			o.Amt = rapid.IntRange(1, 60).Draw(t, "amt")
		}
		return o
	})
	c.G = rapid.SliceOfN(rapid.SliceOfN(opGen, 1, 4), 2, 4).Draw(t, "goroutines")
	return c
}

func concPayTest(t *testing.T, checks int) {
	r := evid.Get(id)
	evid.Finish(t, r)
	evid.Checks(checks)
	rapid.Check(t, func(t *rapid.T) {
		c := genConcPay(t)
		sig, err, parked := runConcPay(c)
		if err != nil {
			if sig == sigHarness || sig == sigHarnessCap {
				t.Skipf("harness: %v", err)
			}
			t.Fatalf("%s", evid.Violation(id, sig, fmt.Sprintf("%v case=%+v", err, c)))
		}
		cls := []string{"concurrent-pays"}
		if parked {
			cls = append(cls, "delivery-parked-while-others-run")
		}
		r.Case(evid.Hash64("concpay", c), parked, cls...)
		r.Sample(c)
	})
}

func TestC31_ConcurrentPays(t *testing.T) { concPayTest(t, 60) }
