package c31

import (
	"context"
	"encoding/json"
	"errors"
	"fmt"
	"math/big"
	"os"
	"path/filepath"
	"testing"
	"time"

	"github.com/ethereum/go-ethereum/common"
	"github.com/gauss-project/aurorafs/pkg/settlement/traffic"
	chequePkg "github.com/gauss-project/aurorafs/pkg/settlement/traffic/cheque"
	"pgregory.net/rapid"
	"verifharness/internal/evid"
	"verifharness/internal/trafx"
)

const id = "C31"

const (
	// issuing a cheque changed the record of what the peer cashed (and so the available balance)
	sigAlias      = "C31/issue-changes-cashed-record"
	sigAvailable  = "C31/available-balance"
	sigBalance    = "C31/chain-balance-view"
	sigPersisted  = "C31/persisted-cashed-record"
	sigNotIncr    = "C31/cumulative-not-increasing"
	sigExceeds    = "C31/cumulative-exceeds-owed"
	sigFields     = "C31/cheque-fields"
	sigMultiple   = "C31/multiple-cheques-per-pay"
	sigLastSent   = "C31/last-sent-cheque"
	sigPanic      = "C31/panic"
	sigHarness    = "C31/harness"
	sigHarnessCap = "C31/harness-wait-cap"
)

const nPeers = 3

var (
	meKey     = trafx.Key(0)
	meAddr    = trafx.Addr(meKey)
	peerAddrs = func() []common.Address {
		var a []common.Address
		for i := 0; i < nPeers; i++ {
			a = append(a, trafx.Addr(trafx.Key(i+1)))
		}
		return a
	}()
	e18 = new(big.Int).Exp(big.NewInt(10), big.NewInt(18), nil)
)

type op struct {
	Kind   string `json:"kind"` // credit|pay|refresh|restart|chaincash|deposit|cashreceipt
	Peer   int    `json:"peer"`
	Pick   int    `json:"pick,omitempty"`   // 0 => Peer as given; 1 => the peer with most unpaid traffic (pay/credit) or most uncashed cheque (chaincash)
	Amt    int    `json:"amt,omitempty"`    // credit / deposit amount, or fixed threshold
	Big    bool   `json:"big,omitempty"`    // amount in units of 1e18
	Thr    int    `json:"thr,omitempty"`    // pay threshold: 0 => 1, 1 => Amt, 2 => exactly what is outstanding, 3 => outstanding+1
	Fail   bool   `json:"fail,omitempty"`   // pay: delivery of the cheque fails
	Frac   int    `json:"frac,omitempty"`   // chaincash: the peer cashes frac/4 of what it holds uncashed
	Status int    `json:"status,omitempty"` // cashreceipt: 1 mined ok, 0 mined failed, 2 receipt error
}

type kase struct {
	Balance int  `json:"balance"` // initial on-chain balance: 0 => 0, 1 => 50, 2 => 1e9, 3 => 1e30
	Ops     []op `json:"ops"`
}

func amount(o op) *big.Int {
	a := big.NewInt(int64(o.Amt))
	if o.Big {
		a.Mul(a, e18)
	}
	return a
}

type model struct {
	chainBal     *big.Int
	chainCashed  [nPeers]*big.Int
	viewBal      *big.Int
	viewCashed   [nPeers]*big.Int
	owed         [nPeers]*big.Int
	delivered    [nPeers]*big.Int
	hasCheque    [nPeers]bool
	everCredited [nPeers]bool
	aliased      [nPeers]bool // precondition of the known finding (see run)
	failedSince  [nPeers]bool
	refreshed    bool
}

func sum(a [nPeers]*big.Int) *big.Int {
	t := big.NewInt(0)
	for _, v := range a {
		t.Add(t, v)
	}
	return t
}

type stats struct {
	emitted, delivered, failed, payNoIssue, insufficient, excluded int
	payAfterRefresh, payAfterFailed, payAfterCash, receipts        int
	refreshes, restarts, chaincash                                 int
}

type sut struct {
	node *trafx.Node
}

func (s *sut) handshakes() error {
	for p := 0; p < nPeers; p++ {
		if err := s.node.Svc.Handshake(trafx.Overlay(p), peerAddrs[p], chequePkg.SignedCheque{}); err != nil {
			return fmt.Errorf("handshake peer %d: %v", p, err)
		}
	}
	return nil
}

// cashedViaInfo derives the sum of the per-peer cashed records from TrafficInfo
// (AvailableBalance there is Balance + cashed - TotalSendTraffic). It is used only to
// name a failure, never to decide one.
func (s *sut) cashedViaInfo() *big.Int {
	ti, err := s.node.Svc.TrafficInfo()
	if err != nil || ti == nil {
		return nil
	}
	v := new(big.Int).Sub(ti.AvailableBalance, ti.Balance)
	return v.Add(v, ti.TotalSendTraffic)
}

func (s *sut) check(m *model, step string, wasPay bool, cashedBefore *big.Int, persistedBefore []*big.Int) (string, error) {
	svc := s.node.Svc
	avail, err := svc.AvailableBalance()
	if err != nil {
		return sigAvailable, fmt.Errorf("%s: AvailableBalance: %v", step, err)
	}
	want := new(big.Int).Add(m.viewBal, sum(m.viewCashed))
	want.Sub(want, sum(m.owed))
	if avail.Cmp(want) != 0 {
		sig := sigAvailable
		after := s.cashedViaInfo()
		if wasPay && cashedBefore != nil && after != nil && after.Cmp(cashedBefore) != 0 {
			sig = sigAlias
		}
		return sig, fmt.Errorf("%s: AvailableBalance() = %v, want chain balance %v + cashed %v - owed %v = %v (sum of cashed records as seen through TrafficInfo: before %v, after %v)",
			step, avail, m.viewBal, sum(m.viewCashed), sum(m.owed), want, cashedBefore, after)
	}
	ti, err := svc.TrafficInfo()
	if err != nil {
		return sigBalance, fmt.Errorf("%s: TrafficInfo: %v", step, err)
	}
	if ti.Balance.Cmp(m.viewBal) != 0 {
		return sigBalance, fmt.Errorf("%s: TrafficInfo.Balance = %v, chain balance at the last refresh was %v", step, ti.Balance, m.viewBal)
	}
	for p := 0; p < nPeers; p++ {
		if wasPay && persistedBefore != nil {
			got, err := s.node.ChequeStore.GetChainRetrieveTraffic(peerAddrs[p])
			if err != nil {
				return sigPersisted, fmt.Errorf("%s: GetChainRetrieveTraffic(peer %d): %v", step, p, err)
			}
			if got.Cmp(persistedBefore[p]) != 0 {
				return sigAlias, fmt.Errorf("%s: persisted cashed record of peer %d changed across Pay: %v -> %v", step, p, persistedBefore[p], got)
			}
		}
		last, err := svc.LastSentCheque(trafx.Overlay(p))
		if !m.hasCheque[p] {
			if err == nil && last != nil && last.CumulativePayout != nil && last.CumulativePayout.Sign() != 0 {
				return sigLastSent, fmt.Errorf("%s: LastSentCheque(peer %d) = %v, %v; no cheque was delivered", step, p, last, err)
			}
			continue
		}
		if err != nil || last == nil || last.CumulativePayout == nil || last.CumulativePayout.Cmp(m.delivered[p]) != 0 ||
			last.Recipient != peerAddrs[p] || last.Beneficiary != meAddr {
			return sigLastSent, fmt.Errorf("%s: LastSentCheque(peer %d) = %v, err %v; last delivered cumulative %v", step, p, last, err, m.delivered[p])
		}
	}
	return "", nil
}

func (s *sut) pay(p int, thr *big.Int) (err error, pan interface{}) {
	defer func() {
		if r := recover(); r != nil {
			pan = r
		}
	}()
	err = s.node.Svc.Pay(context.Background(), trafx.Overlay(p), thr)
	return
}

// refreshModel applies what a refresh from chain (Init) must make visible.
func (m *model) refreshModel(fresh bool) {
	m.viewBal = new(big.Int).Set(m.chainBal)
	for p := 0; p < nPeers; p++ {
		m.viewCashed[p] = new(big.Int).Set(m.chainCashed[p])
		covered := m.everCredited[p] || m.chainCashed[p].Sign() > 0
		if covered {
			m.aliased[p] = !m.hasCheque[p] || m.chainCashed[p].Cmp(m.delivered[p]) >= 0
		} else if fresh {
			m.aliased[p] = false
		}
	}
}

func run(c kase, st *stats, noExclude bool) (sig string, err error) {
	store, release, e := trafx.AcquireStore()
	if e != nil {
		return sigHarness, e
	}
	defer release()
	ch := trafx.NewChain()
	m := &model{}
	switch c.Balance {
	case 0:
		m.chainBal = big.NewInt(0)
	case 1:
		m.chainBal = big.NewInt(50)
	case 2:
		m.chainBal = big.NewInt(1000000000)
	default:
		m.chainBal = new(big.Int).Exp(big.NewInt(10), big.NewInt(30), nil)
	}
	for p := 0; p < nPeers; p++ {
		m.chainCashed[p], m.viewCashed[p], m.owed[p], m.delivered[p] = big.NewInt(0), big.NewInt(0), big.NewInt(0), big.NewInt(0)
	}
	ch.SetBalance(meAddr, m.chainBal)
	node, e := trafx.NewNode(meKey, store, ch)
	if e != nil {
		return sigHarness, fmt.Errorf("setup: %v", e)
	}
	s := &sut{node: node}
	if e := s.handshakes(); e != nil {
		return sigHarness, e
	}
	m.refreshModel(true)
	if sg, e := s.check(m, "init", false, nil, nil); e != nil {
		return sg, e
	}
	for k, o := range c.Ops {
		step := fmt.Sprintf("op#%d %+v", k, o)
		p := o.Peer % nPeers
		if o.Pick == 1 {
			best := big.NewInt(0)
			for q := 0; q < nPeers; q++ {
				var v *big.Int
				if o.Kind == "chaincash" {
					v = new(big.Int).Sub(m.delivered[q], m.chainCashed[q])
				} else {
					v = new(big.Int).Sub(m.owed[q], m.delivered[q])
				}
				if v.Cmp(best) > 0 {
					best, p = v, q
				}
			}
		}
		wasPay := false
		var cashedBefore *big.Int
		var persistedBefore []*big.Int
		switch o.Kind {
		case "credit":
			a := amount(o)
			if a.Sign() <= 0 {
				a = big.NewInt(1)
			}
			if e := s.node.Svc.PutRetrieveTraffic(trafx.Overlay(p), a); e != nil {
				return sigHarness, fmt.Errorf("%s: PutRetrieveTraffic: %v", step, e)
			}
			m.owed[p] = new(big.Int).Add(m.owed[p], a)
			m.everCredited[p] = true
		case "pay":
			outstanding := new(big.Int).Sub(m.owed[p], m.delivered[p]) // upper bound of what the service may pay
			var thr *big.Int
			switch o.Thr {
			case 0:
				thr = big.NewInt(1)
			case 1:
				thr = amount(o)
			case 2:
				thr = new(big.Int).Set(outstanding)
			default:
				thr = new(big.Int).Add(outstanding, big.NewInt(1))
			}
			if thr.Sign() <= 0 {
				thr = big.NewInt(1) // real callers pass a positive payment threshold
			}
			// Known finding: after a refresh/restart the cheque total of a peer that holds no
			// uncashed cheque is the same *big.Int as its cashed record; issue() then adds to it in
			// place. Any Pay that could issue in that state is excluded by construction.
			if !noExclude && evid.Known(sigAlias) && m.aliased[p] && outstanding.Cmp(thr) >= 0 {
				st.excluded++
				evid.Get(id).Excluded(sigAlias)
				continue
			}
			wasPay = true
			cashedBefore = s.cashedViaInfo()
			for q := 0; q < nPeers; q++ {
				v, e := s.node.ChequeStore.GetChainRetrieveTraffic(peerAddrs[q])
				if e != nil {
					return sigHarness, fmt.Errorf("%s: GetChainRetrieveTraffic: %v", step, e)
				}
				persistedBefore = append(persistedBefore, v)
			}
			s.node.Proto.SetFail(o.Fail)
			n0 := s.node.Proto.Len()
			perr, pan := s.pay(p, thr)
			s.node.Proto.SetFail(false)
			if pan != nil {
				return sigPanic, fmt.Errorf("%s: panic %v", step, pan)
			}
			emits := s.node.Proto.Since(n0)
			if len(emits) > 1 {
				return sigMultiple, fmt.Errorf("%s: %d cheques emitted by one Pay", step, len(emits))
			}
			if len(emits) == 0 {
				st.payNoIssue++
				if errors.Is(perr, traffic.ErrInsufficientFunds) {
					st.insufficient++
				}
			}
			for _, em := range emits {
				st.emitted++
				cq := em.Cheque
				if !em.Peer.Equal(trafx.Overlay(p)) || cq.Recipient != peerAddrs[p] || cq.Beneficiary != meAddr || cq.CumulativePayout == nil {
					return sigFields, fmt.Errorf("%s: cheque sent to %s = {recipient %s issuer %s cum %v}; expected peer %d (%s) and issuer %s", step, em.Peer, cq.Recipient.Hex(), cq.Beneficiary.Hex(), cq.CumulativePayout, p, peerAddrs[p].Hex(), meAddr.Hex())
				}
				if cq.CumulativePayout.Cmp(m.delivered[p]) <= 0 {
					return sigNotIncr, fmt.Errorf("%s: cheque for peer %d has cumulative payout %v, not above the last delivered %v", step, p, cq.CumulativePayout, m.delivered[p])
				}
				if cq.CumulativePayout.Cmp(m.owed[p]) > 0 {
					return sigExceeds, fmt.Errorf("%s: cheque for peer %d has cumulative payout %v, above the traffic owed %v", step, p, cq.CumulativePayout, m.owed[p])
				}
				if m.refreshed {
					st.payAfterRefresh++
				}
				if m.failedSince[p] {
					st.payAfterFailed++
				}
				if m.chainCashed[p].Sign() > 0 {
					st.payAfterCash++
				}
				if em.Delivered {
					st.delivered++
					m.delivered[p] = new(big.Int).Set(cq.CumulativePayout)
					m.hasCheque[p] = true
					m.failedSince[p] = false
				} else {
					st.failed++
					m.failedSince[p] = true
				}
			}
		case "refresh":
			if e := s.node.Svc.Init(); e != nil {
				return sigHarness, fmt.Errorf("%s: Init: %v", step, e)
			}
			m.refreshModel(false)
			m.refreshed = true
			st.refreshes++
		case "restart":
			n2, e := s.node.Restart()
			if e != nil {
				return sigHarness, fmt.Errorf("%s: restart: %v", step, e)
			}
			s.node = n2
			if e := s.handshakes(); e != nil {
				return sigHarness, fmt.Errorf("%s: %v", step, e)
			}
			m.refreshModel(true)
			for q := range m.failedSince {
				m.failedSince[q] = false
			}
			m.refreshed = true
			st.restarts++
		case "chaincash":
			// the peer cashes part of the cheque it holds; visible to the node at the next refresh
			un := new(big.Int).Sub(m.delivered[p], m.chainCashed[p])
			f := o.Frac%4 + 1
			d := new(big.Int).Mul(un, big.NewInt(int64(f)))
			d.Div(d, big.NewInt(4))
			if d.Cmp(m.chainBal) > 0 {
				d = new(big.Int).Set(m.chainBal)
			}
			if d.Sign() > 0 {
				m.chainCashed[p] = new(big.Int).Add(m.chainCashed[p], d)
				m.chainBal = new(big.Int).Sub(m.chainBal, d)
				ch.SetAmount(meAddr, peerAddrs[p], m.chainCashed[p])
				ch.SetBalance(meAddr, m.chainBal)
				st.chaincash++
			}
		case "deposit":
			a := amount(o)
			if a.Sign() > 0 {
				m.chainBal = new(big.Int).Add(m.chainBal, a)
				ch.SetBalance(meAddr, m.chainBal)
			}
		case "cashreceipt":
			// this node cashes the peer's cheque; on a successful receipt the service re-reads the
			// chain balance and this peer's chain totals
			switch o.Status {
			case 1:
				s.node.Cashout.Set(1, nil)
			case 0:
				s.node.Cashout.Set(0, nil)
			default:
				s.node.Cashout.Set(0, errors.New("receipt unavailable"))
			}
			n0 := s.node.Sub.Count("traffic/cashOut")
			if _, e := s.node.Svc.CashCheque(context.Background(), trafx.Overlay(p)); e != nil {
				return sigHarness, fmt.Errorf("%s: CashCheque: %v", step, e)
			}
			if e := s.node.Sub.WaitCount("traffic/cashOut", n0+1, 120*time.Second); e != nil {
				return sigHarnessCap, e
			}
			if o.Status == 1 {
				m.viewBal = new(big.Int).Set(m.chainBal)
				m.viewCashed[p] = new(big.Int).Set(m.chainCashed[p])
			}
			st.receipts++
		default:
			return sigHarness, fmt.Errorf("bad op %q", o.Kind)
		}
		if sg, e := s.check(m, step, wasPay, cashedBefore, persistedBefore); e != nil {
			return sg, e
		}
	}
	return "", nil
}

func genCase(t *rapid.T) kase {
	c := kase{Balance: rapid.SampledFrom([]int{0, 1, 2, 2, 2, 3, 3, 3, 3, 3, 3, 3, 3, 3, 3, 3}).Draw(t, "balance")}
	n := rapid.IntRange(2, 30).Draw(t, "nops")
	bigUnits := c.Balance == 3 && rapid.IntRange(0, 2).Draw(t, "bigunits") == 0
	if rapid.Bool().Draw(t, "warm") {
		c.Ops = append(c.Ops, op{Kind: "credit", Peer: 0, Amt: 100, Big: bigUnits}, op{Kind: "pay", Peer: 0},
			op{Kind: "credit", Peer: 1, Amt: 40, Big: bigUnits}, op{Kind: "pay", Peer: 1})
	}
	for i := 0; i < n; i++ {
		k := rapid.SampledFrom([]string{"credit", "credit", "credit", "credit", "credit", "credit", "pay", "pay", "pay", "pay", "pay", "pay", "pay",
			"refresh", "refresh", "restart", "chaincash", "chaincash", "deposit", "cashreceipt"}).Draw(t, "kind")
		o := op{Kind: k, Peer: rapid.SampledFrom([]int{0, 0, 0, 0, 1, 1, 2}).Draw(t, "peer")}
		switch k {
		case "credit":
			o.Amt = rapid.OneOf(rapid.Just(1), rapid.IntRange(1, 100), rapid.IntRange(1, 1000000)).Draw(t, "amt")
			o.Big = bigUnits
		case "pay":
			if rapid.IntRange(0, 2).Draw(t, "pick") > 0 {
				o.Pick = 1
			}
			o.Thr = rapid.SampledFrom([]int{0, 0, 0, 0, 0, 1, 2, 2, 3}).Draw(t, "thr")
			if o.Thr == 1 {
				o.Amt = rapid.IntRange(1, 200).Draw(t, "threshold")
				o.Big = bigUnits
			}
			o.Fail = rapid.IntRange(0, 3).Draw(t, "fail?") == 0
		case "chaincash":
			if rapid.IntRange(0, 3).Draw(t, "pick") > 0 {
				o.Pick = 1
			}
			o.Frac = rapid.SampledFrom([]int{0, 1, 2, 3, 3}).Draw(t, "frac")
		case "deposit":
			o.Amt = rapid.IntRange(1, 1000000).Draw(t, "amt")
			o.Big = bigUnits
		case "cashreceipt":
			o.Status = rapid.SampledFrom([]int{1, 1, 1, 0, 2}).Draw(t, "status")
		}
		c.Ops = append(c.Ops, o)
	}
	return c
}

func record(r *evid.Rec, c kase, st *stats) {
	nt := st.payAfterRefresh > 0 || st.payAfterFailed > 0
	var cls []string
	add := func(n int, name string) {
		if n > 0 {
			cls = append(cls, name)
		}
	}
	add(st.payAfterRefresh, "cheque-issued-after-refresh-or-restart")
	add(st.payAfterFailed, "cheque-issued-after-failed-delivery")
	add(st.payAfterCash, "cheque-issued-after-peer-cashed-on-chain")
	add(st.failed, "has-failed-delivery")
	add(st.insufficient, "has-insufficient-funds")
	add(st.refreshes, "has-refresh")
	add(st.restarts, "has-restart")
	add(st.chaincash, "has-chain-cash")
	add(st.receipts, "has-cashout-receipt")
	add(st.excluded, "has-excluded-pay")
	if st.emitted == 0 {
		cls = append(cls, "no-cheque-issued")
	}
	r.Case(evid.Hash64(c), nt, cls...)
	r.ClassN("cheques-emitted", st.emitted)
	r.ClassN("cheques-delivered", st.delivered)
	r.ClassN("pay-without-cheque", st.payNoIssue)
	r.Sample(c)
}

func fail(t interface{ Fatalf(string, ...interface{}) }, c kase, sig string, err error) {
	b, _ := json.Marshal(c)
	if d := os.Getenv("VERIF_REPLAY_OUT"); d != "" {
		os.WriteFile(filepath.Join(d, "last-failing-case.json"), b, 0o644) // overwritten while shrinking: the last one is the smallest
	}
	if sig == sigHarnessCap {
		// not a verdict: the driver classifies this line as an infrastructure timeout
		t.Fatalf("panic: test timed out (harness wait cap hit: %v) case=%s", err, b)
	}
	t.Fatalf("%s", evid.Violation(id, sig, fmt.Sprintf("%v\ncase=%s", err, b)))
}

const rule = "rapid: history of 2..24 ops over 3 registered peers on a real traffic.Service (real cheque store, signer, address book; in-memory leveldb state store): credit traffic owed (PutRetrieveTraffic; 1, 1..100, 1..1e6, optionally in units of 1e18), Pay with threshold 1 | fixed | exactly outstanding | outstanding+1 and delivery succeeding or failing, refresh from chain (Init), restart (new service on the same store + Init), peer cashes 1/4..4/4 of its uncashed cheque on the chain stub, deposit, cash-out receipt (mined ok | mined failed | error); initial chain balance 0 | 50 | 1e9 | 1e30; half of the histories start with a credit+delivered cheque for peers 0 and 1; pay/chaincash may target the peer with most unpaid traffic / uncashed cheque; after every op AvailableBalance() == chain balance at last refresh + cashed at last refresh - total owed, persisted cashed records unchanged by Pay, LastSentCheque == last delivered; every emitted cheque has cumulative > last delivered and <= owed; non-trivial = a cheque is issued after a refresh/restart, or after a failed delivery to the same peer; distinct by hash of the case. Concurrent variant: 2-4 goroutines with 1-4 Pay/credit calls each over the 3 peers while the delivery of a cheque to one chosen peer is parked by the harness (the service holds that peer's lock there) until the others have started; at quiescence per peer the delivered cumulative payouts strictly increase and stay <= the credits, the recorded owed traffic == credits, AvailableBalance() == chain balance - credits; non-trivial there = a delivery was actually parked"

// witness of C31/issue-changes-cashed-record: owe peer 0 100, refresh, pay.
var witnessCase = kase{Balance: 2, Ops: []op{{Kind: "credit", Peer: 0, Amt: 100}, {Kind: "refresh"}, {Kind: "pay", Peer: 0}}}

func TestC31_History(t *testing.T) {
	r := evid.Get(id)
	evid.Finish(t, r)
	r.SetRule(rule)
	if evid.Known(sigAlias) {
		if sig, err := run(witnessCase, &stats{}, true); err != nil && sig == sigAlias {
			r.Witness(sigAlias)
		} else if err != nil {
			fail(t, witnessCase, sig, err)
		}
	}
	// deterministic basics
	basics := []kase{
		{Balance: 2, Ops: []op{{Kind: "credit", Amt: 100}, {Kind: "pay"}, {Kind: "credit", Amt: 50}, {Kind: "pay", Fail: true}, {Kind: "credit", Amt: 5}, {Kind: "pay"},
			{Kind: "chaincash", Frac: 1}, {Kind: "refresh"}, {Kind: "credit", Amt: 7}, {Kind: "pay"}, {Kind: "restart"}, {Kind: "credit", Amt: 9}, {Kind: "pay"},
			{Kind: "cashreceipt", Status: 1}, {Kind: "credit", Amt: 1}, {Kind: "pay"}}},
		{Balance: 1, Ops: []op{{Kind: "credit", Amt: 100}, {Kind: "pay"}, {Kind: "deposit", Amt: 1000}, {Kind: "pay"}, {Kind: "cashreceipt", Status: 1}, {Kind: "pay"}}},
	}
	if os.Getenv("VERIF_SKIP_BASICS") != "" { // sensitivity runs: measure the generated part alone
		basics = nil
	}
	for _, c := range basics {
		st := &stats{}
		if sig, err := run(c, st, false); err != nil {
			fail(t, c, sig, err)
		}
		record(r, c, st)
	}
	evid.Checks(1500)
	rapid.Check(t, func(t *rapid.T) {
		c := genCase(t)
		st := &stats{}
		if sig, err := run(c, st, false); err != nil {
			fail(t, c, sig, err)
		}
		record(r, c, st)
	})
}
