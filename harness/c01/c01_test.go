package c01

import (
	"context"
	"errors"
	"flag"
	"fmt"
	"io"
	"os"
	"testing"

	"github.com/gauss-project/aurorafs/pkg/boson"
	"github.com/gauss-project/aurorafs/pkg/encryption"
	"github.com/gauss-project/aurorafs/pkg/file"
	"pgregory.net/rapid"
	"verifharness/internal/evid"
	fp "verifharness/internal/filepipe"
)

const id = "C01"

const CS = fp.CS

// maxLen is the largest materialised file: 6 chunks + a bit (1.5 MiB + slack).
const maxLen = 6*CS + 4097

type readAt struct {
	Off int64 `json:"off"`
	Len int   `json:"len"`
}

// seekOp: seek so that the position becomes Target (expressed through Whence;
// the raw offset is derived from the model position at interpretation time),
// then Read(Len).
type seekOp struct {
	Whence int   `json:"whence"`
	Target int64 `json:"target"`
	Len    int   `json:"len"`
}

type kase struct {
	Len     int      `json:"len"`
	Kind    int      `json:"kind"`
	Seed    uint64   `json:"seed"`
	Encrypt bool     `json:"encrypt"`
	Feed    bool     `json:"feed_pipeline"`
	EOFData bool     `json:"eof_with_data"`
	Writes  []int    `json:"writes"`
	SeqHead []int    `json:"seq_head"` // buffer sizes of the first sequential reads
	SeqBulk int      `json:"seq_bulk"` // buffer size of all later sequential reads (>= 32 KiB)
	ReadAts []readAt `json:"read_ats"`
	Seeks   []seekOp `json:"seeks"`
}

type content interface {
	Len() int64
	Slice(off, n int64) []byte
}

type flat []byte

func (f flat) Len() int64                { return int64(len(f)) }
func (f flat) Slice(off, n int64) []byte { return []byte(f)[off : off+n] }

// readProgram runs the read part of a case against an opened joiner.
func readProgram(j file.Joiner, c content, seqHead []int, seqBulk int, readAts []readAt, seeks []seekOp, fullSeq bool) (sig string, err error) {
	size := c.Len()
	want := func(off, n int64) []byte { return c.Slice(off, n) }
	fail := func(v, where, detail string) (string, error) {
		return id + "/" + where + "-" + v, fmt.Errorf("%s: %s", where, detail)
	}
	// 1. sequential pass from the start until EOF
	if fullSeq {
		var pos int64
		for step := 0; ; step++ {
			ln := seqBulk
			if step < len(seqHead) {
				ln = seqHead[step]
			}
			buf := fp.NewBuf(ln, 0)
			var n int
			var rerr error
			if perr := fp.Safe(func() error { n, rerr = j.Read(buf); return nil }); perr != nil {
				return id + "/read-panic", fmt.Errorf("sequential Read(len %d) at %d: %v", ln, pos, perr)
			}
			if v, d := fp.JudgeRead(buf, n, rerr, pos, size, want); v != fp.VOK {
				return fail(v, "sequential-read", fmt.Sprintf("step %d: %s", step, d))
			}
			pos += int64(n)
			if rerr == io.EOF {
				break
			}
			if pos >= size && ln > 0 && n == 0 {
				break // unreachable: JudgeRead demands EOF here
			}
			if step > len(seqHead)+int(size/int64(seqBulk))+8 {
				return id + "/sequential-read-no-progress", fmt.Errorf("no EOF after %d reads, pos=%d size=%d", step, pos, size)
			}
		}
		if pos != size {
			return id + "/sequential-read-total", fmt.Errorf("sequential reads delivered %d bytes, size %d", pos, size)
		}
	}
	// 2. reads at arbitrary offsets
	for k, r := range readAts {
		buf := fp.NewBuf(r.Len, 0)
		var n int
		var rerr error
		if perr := fp.Safe(func() error { n, rerr = j.ReadAt(buf, r.Off); return nil }); perr != nil {
			return id + "/readat-panic", fmt.Errorf("ReadAt(len %d, off %d): %v", r.Len, r.Off, perr)
		}
		if v, d := fp.JudgeRead(buf, n, rerr, r.Off, size, want); v != fp.VOK {
			return fail(v, "readat", fmt.Sprintf("#%d: %s", k, d))
		}
	}
	// 3. seek then read; the sequential position is tracked by the model
	var pos int64
	if p, e := j.Seek(0, io.SeekStart); e != nil || p != 0 {
		return id + "/seek", fmt.Errorf("Seek(0, start) = (%d, %v)", p, e)
	}
	for k, s := range seeks {
		var off int64
		switch s.Whence {
		case io.SeekStart:
			off = s.Target
		case io.SeekCurrent:
			off = s.Target - pos
		case io.SeekEnd:
			off = size - s.Target // the project counts end offsets backwards
		}
		var p int64
		var serr error
		if perr := fp.Safe(func() error { p, serr = j.Seek(off, s.Whence); return nil }); perr != nil {
			return id + "/seek-panic", fmt.Errorf("Seek(%d, %d): %v", off, s.Whence, perr)
		}
		if serr != nil || p != s.Target {
			return id + "/seek", fmt.Errorf("seek #%d: Seek(%d, whence %d) from pos %d = (%d, %v), want (%d, nil); size %d", k, off, s.Whence, pos, p, serr, s.Target, size)
		}
		pos = s.Target
		buf := fp.NewBuf(s.Len, 0)
		var n int
		var rerr error
		if perr := fp.Safe(func() error { n, rerr = j.Read(buf); return nil }); perr != nil {
			return id + "/read-panic", fmt.Errorf("Read(len %d) after seek to %d: %v", s.Len, pos, perr)
		}
		if v, d := fp.JudgeRead(buf, n, rerr, pos, size, want); v != fp.VOK {
			return fail(v, "read-after-seek", fmt.Sprintf("#%d (whence %d, target %d): %s", k, s.Whence, s.Target, d))
		}
		pos += int64(n)
	}
	return "", nil
}

func run(c kase) (sig string, err error) {
	if fp.Sum(c.Writes) != c.Len {
		return "", fmt.Errorf("harness: writes do not sum to len")
	}
	ctx := context.Background()
	data := fp.Gen(c.Kind, c.Seed, c.Len)
	st := fp.NewRecStore()
	ref, uerr := fp.Upload(ctx, st, data, c.Writes, c.Encrypt, c.Feed, c.EOFData)
	if uerr != nil {
		var pe *fp.PanicError
		switch {
		case errors.As(uerr, &pe):
			return id + "/upload-panic", uerr
		case errors.Is(uerr, fp.ErrWriterContract):
			return id + "/upload-short-write", uerr
		}
		return id + "/upload-error", uerr
	}
	wantRef := boson.HashSize
	if c.Encrypt {
		wantRef = encryption.ReferenceSize
	}
	if len(ref.Bytes()) != wantRef {
		return id + "/reference-length", fmt.Errorf("reference of %d bytes, want %d", len(ref.Bytes()), wantRef)
	}
	j, size, oerr := fp.Open(ctx, st, ref)
	if oerr != nil {
		return id + "/open-error", fmt.Errorf("joiner.New(%s): %v", ref, oerr)
	}
	if size != int64(c.Len) || j.Size() != int64(c.Len) {
		return id + "/size", fmt.Errorf("joiner.New size=%d Size()=%d, content length %d", size, j.Size(), c.Len)
	}
	if sig, err := readProgram(j, flat(data), c.SeqHead, c.SeqBulk, c.ReadAts, c.Seeks, true); err != nil {
		return sig, err
	}
	if st.Miss != 0 || st.BadAddr != 0 {
		return id + "/store", fmt.Errorf("store: %d misses, %d malformed addresses", st.Miss, st.BadAddr)
	}
	return "", nil
}

func genCase(t *rapid.T) kase {
	var c kase
	c.Len = fp.DrawLen(t, CS, maxLen)
	c.Kind = rapid.SampledFrom([]int{fp.KindStream, fp.KindStream, fp.KindStream, fp.KindTemplate, fp.KindTemplate, fp.KindZero, fp.KindOnes}).Draw(t, "kind")
	c.Seed = rapid.Uint64Range(0, 1<<20).Draw(t, "seed")
	c.Encrypt = rapid.IntRange(0, 2).Draw(t, "encrypt") == 0
	c.Feed = rapid.IntRange(0, 2).Draw(t, "feed") == 0
	if c.Feed {
		c.EOFData = rapid.Bool().Draw(t, "eofWithData")
	}
	c.Writes = fp.DrawWrites(t, c.Len, CS, "w")
	size := int64(c.Len)
	// sequential pass: a few drawn buffer sizes, then bulk
	nh := rapid.IntRange(0, 6).Draw(t, "nSeqHead")
	var pos int64
	for i := 0; i < nh; i++ {
		l := fp.DrawBufLen(t, size, pos, CS, 2*CS+3, "seq")
		c.SeqHead = append(c.SeqHead, l)
		pos += int64(l)
		if pos > size {
			pos = size
		}
	}
	c.SeqBulk = rapid.SampledFrom([]int{32768, 65536 + 1, CS - 1, CS, CS + 1, 2 * CS}).Draw(t, "seqBulk")
	nr := rapid.IntRange(0, 6).Draw(t, "nReadAt")
	for i := 0; i < nr; i++ {
		off := fp.DrawOffset(t, size, CS, "ra")
		c.ReadAts = append(c.ReadAts, readAt{Off: off, Len: fp.DrawBufLen(t, size, off, CS, 2*CS+3, "raLen")})
	}
	ns := rapid.IntRange(0, 5).Draw(t, "nSeek")
	for i := 0; i < ns; i++ {
		tg := fp.DrawOffset(t, size, CS, "sk")
		if tg > size {
			tg = size // C01 only seeks inside the file (C07 covers the rest)
		}
		c.Seeks = append(c.Seeks, seekOp{
			Whence: rapid.IntRange(0, 2).Draw(t, "whence"),
			Target: tg,
			Len:    fp.DrawBufLen(t, size, tg, CS, 2*CS+3, "skLen"),
		})
	}
	return c
}

func classes(c kase) (nt bool, cls []string) {
	nz := 0
	for _, w := range c.Writes {
		if w > 0 {
			nz++
		}
	}
	nt = c.Len > 0 && (len(c.Writes) >= 2 || len(c.ReadAts)+len(c.Seeks) >= 1)
	switch {
	case c.Len == 0:
		cls = append(cls, "size:empty")
	case c.Len < CS:
		cls = append(cls, "size:sub-chunk")
	case c.Len%CS == 0:
		cls = append(cls, "size:exact-chunks")
	default:
		cls = append(cls, "size:multi-chunk-ragged")
	}
	if c.Len > CS {
		cls = append(cls, "multi-chunk")
	}
	if c.Encrypt {
		cls = append(cls, "encrypted")
	} else {
		cls = append(cls, "plain")
	}
	if c.Feed {
		cls = append(cls, "via-FeedPipeline")
	} else {
		cls = append(cls, "via-Write")
	}
	if len(c.Writes) >= 2 {
		cls = append(cls, "writes>=2")
	}
	for _, w := range c.Writes {
		if w == 0 {
			cls = append(cls, "has-zero-length-write")
			break
		}
	}
	for _, w := range c.Writes {
		if w > CS {
			cls = append(cls, "has-write>chunk")
			break
		}
	}
	for _, w := range c.Writes {
		if w == 1 {
			cls = append(cls, "has-1-byte-write")
			break
		}
	}
	// does any write straddle a chunk border?
	off := 0
	for _, w := range c.Writes {
		if w > 0 && off/CS != (off+w-1)/CS {
			cls = append(cls, "write-straddles-chunk-border")
			break
		}
		off += w
	}
	if len(c.ReadAts) > 0 {
		cls = append(cls, "has-ReadAt")
	}
	for _, r := range c.ReadAts {
		if r.Len > 0 && r.Off < int64(c.Len) && r.Off/CS != (r.Off+int64(r.Len)-1)/CS {
			cls = append(cls, "ReadAt-crosses-chunk-border")
			break
		}
	}
	for _, r := range c.ReadAts {
		if r.Off >= int64(c.Len) {
			cls = append(cls, "ReadAt-at-or-past-end")
			break
		}
	}
	if len(c.Seeks) > 0 {
		cls = append(cls, "has-Seek")
	}
	for _, s := range c.Seeks {
		cls = append(cls, fmt.Sprintf("seek-whence-%d", s.Whence))
	}
	return nt, cls
}

func TestC01_RoundTrip(t *testing.T) {
	r := evid.Get(id)
	evid.Finish(t, r)
	r.SetRule("rapid: content length (boundary set 0,1,31..33,4095..4097, k*256KiB+-1, k*256KiB+r, uniform; <= 6 chunks) x content kind (xorshift stream | repeated chunk templates | zeros | ones) x plain/encrypted x write segmentation (single write, chunk-sized, random cuts incl. zero-length, cuts hugging chunk borders, tiny writes, fixed stride) x entry (direct pipeline.Write+Sum | builder.FeedPipeline over a segmented reader, optionally n>0 with EOF) x read program (sequential Reads with drawn buffer sizes until EOF, ReadAt list, Seek(whence 0/1/2 to an in-file target)+Read list). Real builder.NewPipelineBuilder over a recording in-memory store, real joiner. Oracle: joiner size == length, every read returns exactly the corresponding slice. Non-trivial = length > 0 and (>= 2 writes or >= 1 ReadAt/Seek); distinct by hash of the drawn case")
	// deterministic boundary cases: every boundary length, plain and encrypted, two segmentations
	lens := []int{0, 1, 31, 32, 33, 4095, 4096, CS - 1, CS, CS + 1, 2*CS - 1, 2 * CS, 2*CS + 1}
	if os.Getenv("VERIF_RANDOM_ONLY") != "" { // sensitivity runs: measure the generated part alone
		lens = nil
	}
	for _, l := range lens {
		for _, enc := range []bool{false, true} {
			for v := 0; v < 2; v++ {
				c := kase{Len: l, Kind: fp.KindStream, Seed: uint64(l), Encrypt: enc, SeqBulk: CS}
				if v == 0 {
					c.Writes = []int{l}
				} else {
					c.Feed = true
					c.Writes = fp.CutsToWrites([]int{l / 3, l / 3, l - 1, CS - 1, CS + 1}, l)
					c.SeqHead = []int{1, 0, 31, CS + 1}
				}
				c.ReadAts = []readAt{{0, l}, {int64(l) - 1, 2}, {int64(l), 1}, {int64(l) + 1, 1}, {int64(l / 2), l}, {CS - 1, 2}}
				for i := range c.ReadAts {
					if c.ReadAts[i].Off < 0 {
						c.ReadAts[i].Off = 0
					}
				}
				c.Seeks = []seekOp{{2, int64(l), 1}, {2, 0, 3}, {1, int64(l / 2), 5}, {0, int64(l), 0}, {1, int64(l / 3), CS}}
				if sig, err := run(c); err != nil {
					t.Fatalf("%s", evid.Violation(id, sig, fmt.Sprintf("%v case=%+v", err, c)))
				}
				nt, cls := classes(c)
				r.Case(evid.Hash64(c), nt, append(cls, "deterministic-boundary")...)
			}
		}
	}
	evid.Checks(300)
	rapid.Check(t, func(t *rapid.T) {
		c := genCase(t)
		if sig, err := run(c); err != nil {
			t.Fatalf("%s", evid.Violation(id, sig, fmt.Sprintf("%v case=%+v", err, c)))
		}
		nt, cls := classes(c)
		r.Case(evid.Hash64(c), nt, cls...)
		r.Sample(c)
	})
}

// ---- deep (3-level, real parameters) : thorough tier, first shard only ---------

type deepCase struct {
	Encrypt bool     `json:"encrypt"`
	Seed    uint64   `json:"seed"`
	Chunks  int64    `json:"chunks"`
	Tail    int      `json:"tail"`
	Skew    int      `json:"skew"`
	FullSeq bool     `json:"full_sequential_read"`
	ReadAts []readAt `json:"read_ats"`
	Seeks   []seekOp `json:"seeks"`
}

func runDeep(c deepCase) (string, error) {
	ctx := context.Background()
	v := fp.NewVirtual(c.Seed, c.Chunks, c.Tail)
	st := fp.NewRecStore()
	ref, uerr := fp.UploadVirtual(ctx, st, v, c.Encrypt, c.Skew)
	if uerr != nil {
		var pe *fp.PanicError
		if errors.As(uerr, &pe) {
			return id + "/upload-panic", uerr
		}
		return id + "/upload-error", uerr
	}
	j, size, oerr := fp.Open(ctx, st, ref)
	if oerr != nil {
		return id + "/open-error", oerr
	}
	if size != v.Len() || j.Size() != v.Len() {
		return id + "/size", fmt.Errorf("joiner size %d / %d, content length %d", size, j.Size(), v.Len())
	}
	return readProgram(j, v, []int{1, CS - 1, 2, CS}, CS, c.ReadAts, c.Seeks, c.FullSeq)
}

func TestC01_Deep(t *testing.T) {
	r := evid.Get(id)
	evid.Finish(t, r)
	if !evid.Thorough() || (os.Getenv("VERIF_SHARD") != "" && os.Getenv("VERIF_SHARD") != "0") {
		t.Skip("3-level real-parameter files run in the thorough tier, first shard only")
	}
	r.SetRule("thorough: one plain file just over 8192 chunks and one encrypted file just over 4096 chunks (3-level tries with the real parameters), built from four repeated 256 KiB templates and streamed through the real pipeline; full sequential read plus ReadAt/Seek around the level borders")
	flag.Set("rapid.checks", "1")
	// one case costs a minute: do not spend the budget on shrinking it
	if f := flag.Lookup("rapid.shrinktime"); f != nil {
		old := f.Value.String()
		flag.Set("rapid.shrinktime", "1s")
		defer flag.Set("rapid.shrinktime", old)
	}
	for _, enc := range []bool{false, true} {
		enc := enc
		rapid.Check(t, func(t *rapid.T) {
			b := int64(fp.Branches)
			if enc {
				b /= 2
			}
			c := deepCase{Encrypt: enc, FullSeq: true}
			c.Seed = rapid.Uint64Range(0, 1<<20).Draw(t, "seed")
			c.Chunks = b + int64(rapid.SampledFrom([]int{1, 1, 2, 3, 17}).Draw(t, "extraChunks"))
			c.Tail = rapid.SampledFrom([]int{CS, CS, 1, 33, CS - 1, 100000}).Draw(t, "tail")
			c.Skew = rapid.SampledFrom([]int{0, 1, 4097, CS - 1}).Draw(t, "skew")
			v := fp.NewVirtual(c.Seed, c.Chunks, c.Tail)
			size := v.Len()
			border := b * CS
			for _, off := range []int64{0, border - 1, border, border + 1, border - CS - 1, size - 1, size, size + 1, size - int64(c.Tail) - 1} {
				if off < 0 {
					continue
				}
				c.ReadAts = append(c.ReadAts, readAt{off, rapid.SampledFrom([]int{1, 2, 33, CS, CS + 2, 2*CS + 1}).Draw(t, "raLen")})
			}
			for i := 0; i < 6; i++ {
				c.ReadAts = append(c.ReadAts, readAt{rapid.Int64Range(0, size).Draw(t, "raOff"), rapid.IntRange(0, 2*CS).Draw(t, "raLen")})
			}
			for _, tg := range []int64{border, size, border - 1, 0, size - 1} {
				c.Seeks = append(c.Seeks, seekOp{rapid.IntRange(0, 2).Draw(t, "whence"), tg, rapid.SampledFrom([]int{1, CS + 1}).Draw(t, "skLen")})
			}
			if sig, err := runDeep(c); err != nil {
				t.Fatalf("%s", evid.Violation(id, sig, fmt.Sprintf("%v case=%+v", err, c)))
			}
			cls := []string{"3-level", "multi-chunk"}
			if enc {
				cls = append(cls, "encrypted", "3-level-encrypted")
			} else {
				cls = append(cls, "plain", "3-level-plain")
			}
			if c.Chunks == b+1 {
				cls = append(cls, "3-level-lone-leaf-carried")
			}
			r.Case(evid.Hash64(c), true, cls...)
			r.Sample(c)
		})
	}
}
