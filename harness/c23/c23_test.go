// Package c23 checks property C23: Kad.ClosestPeer / Kad.ClosestPeers select the
// XOR-closest eligible connected peer(s).
package c23

import (
	"context"
	"errors"
	"fmt"
	"math/big"
	"os"
	"sort"
	"sync"
	"testing"

	"github.com/gauss-project/aurorafs/pkg/boson"
	"github.com/gauss-project/aurorafs/pkg/p2p"
	"github.com/gauss-project/aurorafs/pkg/topology"
	"github.com/gauss-project/aurorafs/pkg/topology/kademlia"
	"pgregory.net/rapid"
	"verifharness/internal/evid"
	"verifharness/internal/kadx"
	"verifharness/internal/ref"
)

const id = "C23"

// peer states
const (
	stConnected = "conn"  // connected (inbound or outbound)
	stGone      = "gone"  // connected, then disconnected: known, not connected
	stKnown     = "known" // only added through AddPeers
	stStranger  = "none"  // never mentioned to the Kad
)

type peerSpec struct {
	FD    int    `json:"fd"`
	Tag   uint16 `json:"tag"`
	State string `json:"state"`
	Out   bool   `json:"outbound,omitempty"`
	Reach int    `json:"reach"` // 0 never reported, 1 reported public, 2 reported private, 3 public then private
}

type query struct {
	Status      int    `json:"status"`      // UpdateReachability(status) before the query: -1 none, 0 unknown, 1 public, 2 private
	TargetKind  int    `json:"target_kind"` // 0 base, 1 peer Idx, 2 random bytes
	TargetIdx   int    `json:"target_idx"`
	Flip        []int  `json:"flip"` // bit positions flipped in the target
	Rand        []byte `json:"rand,omitempty"`
	Skip        []int  `json:"skip"` // indices into Peers (any state)
	Reachable   bool   `json:"filter_reachable"`
	IncludeSelf bool   `json:"include_self"`
	Limit       int    `json:"limit"`
}

type kase struct {
	Seed    [4]byte    `json:"seed"`
	Func    bool       `json:"reachability_func"`
	Peers   []peerSpec `json:"peers"`
	Queries []query    `json:"queries"`
	// Special: 0 base derived from Seed; 1 the node's own address is the all-zero address; 2 the base
	// is 8000..00, so that the peer {FD:0, Tag:0} is the all-zero address; 3/4 the same with all-ones
	Special int `json:"special,omitempty"`
}

func baseOf(c kase) boson.Address {
	b := make([]byte, 32)
	switch c.Special {
	case 1:
	case 2:
		b[0] = 0x80
	case 3:
		for i := range b {
			b[i] = 0xff
		}
	case 4:
		for i := range b {
			b[i] = 0xff
		}
		b[0] = 0x7f
	default:
		return kadx.Base(c.Seed)
	}
	return boson.NewAddress(b)
}

type info struct {
	queries, found, wantSelf, notFound, vacuous int
	maxEligible                                 int
	skipUsed, filterUsed, selfEligible          int
	filterExcludes, skipExcludes                int
	multi, multiTruncated, multiFull            int
	targetIsPeer                                int
	sameBinDecision                             int
	nontrivial                                  bool
}

func peerOf(a boson.Address) p2p.Peer { return p2p.Peer{Address: a, Mode: kadx.FullNode()} }

func run(c kase) (sig string, err error, inf info) {
	defer func() {
		if r := recover(); r != nil {
			sig, err = "C23/panic", fmt.Errorf("panic in code under test: %v", r)
		}
	}()
	var mu sync.Mutex
	reachSet := map[string]bool{}
	opts := kademlia.Options{BinMaxPeers: 20}
	if c.Func {
		opts.ReachabilityFunc = func(a boson.Address) bool {
			mu.Lock()
			defer mu.Unlock()
			return !reachSet[a.ByteString()]
		}
	}
	base := baseOf(c)
	env, e := kadx.New(base, opts)
	if e != nil {
		return "C23/setup", e, inf
	}
	defer env.Release()
	k := env.Kad
	n := len(c.Peers)
	addrs := make([]boson.Address, n)
	reach := make([]bool, n)
	setReach := func(i int, on bool) {
		mu.Lock()
		reachSet[addrs[i].ByteString()] = on
		mu.Unlock()
		st := p2p.ReachabilityStatusPrivate
		if on {
			st = p2p.ReachabilityStatusPublic
		}
		k.Reachable(addrs[i], st)
	}
	for i, p := range c.Peers {
		addrs[i] = kadx.AddrAt(base, p.FD, p.Tag)
	}
	for i, p := range c.Peers {
		switch p.State {
		case stConnected, stGone:
			if p.Out {
				k.Outbound(peerOf(addrs[i]))
			} else if e := k.Connected(context.Background(), peerOf(addrs[i]), true); e != nil {
				return "C23/setup", fmt.Errorf("Connected(force): %v", e), inf
			}
		case stKnown:
			k.AddPeers(addrs[i])
		}
		if p.State != stStranger {
			switch p.Reach {
			case 1:
				setReach(i, true)
				reach[i] = true
			case 2:
				setReach(i, false)
			case 3:
				setReach(i, true)
				setReach(i, false)
			}
		}
	}
	for i, p := range c.Peers {
		if p.State == stGone {
			k.Disconnected(peerOf(addrs[i]), "verif")
		}
	}
	status := 0 // unknown
	dist := func(t boson.Address, a boson.Address) *big.Int { return ref.XorDist(t.Bytes(), a.Bytes()) }

	for qi, q := range c.Queries {
		inf.queries++
		switch q.Status {
		case 0:
			k.UpdateReachability(p2p.ReachabilityStatusUnknown) // documented: ignored
		case 1:
			k.UpdateReachability(p2p.ReachabilityStatusPublic)
			status = 1
		case 2:
			k.UpdateReachability(p2p.ReachabilityStatusPrivate)
			status = 2
		}
		// target
		var tb []byte
		switch {
		case q.TargetKind == 1 && n > 0:
			tb = append([]byte{}, addrs[q.TargetIdx%n].Bytes()...)
			if len(q.Flip) == 0 {
				inf.targetIsPeer++
			}
		case q.TargetKind == 2 && len(q.Rand) == 32:
			tb = append([]byte{}, q.Rand...)
		default:
			tb = append([]byte{}, base.Bytes()...)
		}
		for _, b := range q.Flip {
			tb[(b%256)/8] ^= 0x80 >> uint(b%8)
		}
		target := boson.NewAddress(tb)
		// skip list
		var skip []boson.Address
		skipped := map[int]bool{}
		if n > 0 {
			for _, s := range q.Skip {
				skip = append(skip, addrs[s%n])
				skipped[s%n] = true
			}
		}
		filter := topology.Filter{Reachable: q.Reachable}
		// oracle: eligible connected peers sorted by big-integer XOR distance
		var elig []int
		for i, p := range c.Peers {
			if p.State != stConnected {
				continue
			}
			if skipped[i] {
				inf.skipExcludes++
				continue
			}
			if q.Reachable && !reach[i] {
				inf.filterExcludes++
				continue
			}
			elig = append(elig, i)
		}
		sort.Slice(elig, func(a, b int) bool { return dist(target, addrs[elig[a]]).Cmp(dist(target, addrs[elig[b]])) < 0 })
		if len(elig) > inf.maxEligible {
			inf.maxEligible = len(elig)
		}
		if len(elig) >= 3 || len(skip) > 0 {
			inf.nontrivial = true
		}
		if len(skip) > 0 {
			inf.skipUsed++
		}
		if q.Reachable {
			inf.filterUsed++
		}
		if len(elig) >= 2 && c.Peers[elig[0]].FD == c.Peers[elig[1]].FD {
			inf.sameBinDecision++
		}
		selfElig := q.IncludeSelf && status == 1
		if selfElig {
			inf.selfEligible++
		}
		desc := func() string {
			return fmt.Sprintf("query#%d target=%s includeSelf=%v nodeStatus=%d filter.Reachable=%v skip=%v eligible(sorted)=%v", qi, target, q.IncludeSelf, status, q.Reachable, q.Skip, elig)
		}

		got, gerr := k.ClosestPeer(target, q.IncludeSelf, filter, append([]boson.Address(nil), skip...)...)
		switch {
		case len(elig) == 0 && !selfElig:
			if !errors.Is(gerr, topology.ErrNotFound) {
				return "C23/not-found-expected", fmt.Errorf("%s: no eligible peer, want ErrNotFound, got (%s, %v)", desc(), got, gerr), inf
			}
			inf.notFound++
		case len(elig) == 0 && selfElig:
			// both clauses of the statement apply (self is eligible and trivially nearest;
			// no peer is eligible): either answer is accepted, nothing else
			if !errors.Is(gerr, topology.ErrNotFound) && !errors.Is(gerr, topology.ErrWantSelf) {
				return "C23/self-only", fmt.Errorf("%s: only self eligible, want ErrWantSelf or ErrNotFound, got (%s, %v)", desc(), got, gerr), inf
			}
			inf.vacuous++
		case selfElig && dist(target, base).Cmp(dist(target, addrs[elig[0]])) < 0:
			if !errors.Is(gerr, topology.ErrWantSelf) {
				return "C23/want-self-expected", fmt.Errorf("%s: self is eligible and strictly nearer than peer %d, want ErrWantSelf, got (%s, %v)", desc(), elig[0], got, gerr), inf
			}
			inf.wantSelf++
		default:
			if gerr != nil {
				s := "C23/unexpected-error"
				if errors.Is(gerr, topology.ErrWantSelf) {
					s = "C23/want-self-unexpected"
				} else if errors.Is(gerr, topology.ErrNotFound) {
					s = "C23/not-found-unexpected"
				}
				return s, fmt.Errorf("%s: want peer %d (%s), got error %v", desc(), elig[0], addrs[elig[0]], gerr), inf
			}
			if !got.Equal(addrs[elig[0]]) {
				s := "C23/not-closest"
				for i := range addrs {
					if got.Equal(addrs[i]) {
						switch {
						case c.Peers[i].State != stConnected:
							s = "C23/not-connected-returned"
						case skipped[i]:
							s = "C23/skipped-returned"
						case q.Reachable && !reach[i]:
							s = "C23/unreachable-returned"
						}
					}
				}
				return s, fmt.Errorf("%s: want peer %d (%s), got %s", desc(), elig[0], addrs[elig[0]], got), inf
			}
			inf.found++
		}

		// several closest peers
		if q.Limit >= 0 {
			inf.multi++
			res, rerr := k.ClosestPeers(target, q.Limit, filter, append([]boson.Address(nil), skip...)...)
			if rerr != nil {
				return "C23/multi-error", fmt.Errorf("%s: ClosestPeers(limit %d) returned error %v", desc(), q.Limit, rerr), inf
			}
			want := elig
			if len(want) > q.Limit {
				want = want[:q.Limit]
				inf.multiTruncated++
			} else {
				inf.multiFull++
			}
			seen := map[string]bool{}
			for j, a := range res {
				if seen[a.ByteString()] {
					return "C23/multi-duplicate", fmt.Errorf("%s: ClosestPeers(limit %d) returned %s twice: %v", desc(), q.Limit, a, res), inf
				}
				seen[a.ByteString()] = true
				if j > 0 && dist(target, res[j-1]).Cmp(dist(target, a)) > 0 {
					return "C23/multi-order", fmt.Errorf("%s: ClosestPeers(limit %d) not in non-decreasing distance order: %v", desc(), q.Limit, res), inf
				}
			}
			if len(res) != len(want) {
				return "C23/multi-set", fmt.Errorf("%s: ClosestPeers(limit %d) returned %d peers %v, want the %d nearest eligible %v", desc(), q.Limit, len(res), res, len(want), want), inf
			}
			for j := range want {
				if !res[j].Equal(addrs[want[j]]) {
					return "C23/multi-set", fmt.Errorf("%s: ClosestPeers(limit %d)[%d] = %s, want peer %d (%s)", desc(), q.Limit, j, res[j], want[j], addrs[want[j]]), inf
				}
			}
		}
	}
	return "", nil, inf
}

// ---- generator --------------------------------------------------------------------

func genCase(t *rapid.T) kase {
	var c kase
	copy(c.Seed[:], rapid.SliceOfN(rapid.Byte(), 4, 4).Draw(t, "seed"))
	c.Func = rapid.IntRange(0, 2).Draw(t, "mode") == 0
	n := rapid.SampledFrom([]int{0, 1, 2, 3, 4, 5, 6, 6, 8, 8, 10, 12, 14}).Draw(t, "npeers")
	used := map[[2]int]bool{}
	hot := rapid.IntRange(0, 6).Draw(t, "hotbin") // most peers share a few bins so that decisions fall inside a bin
	for i := 0; i < n; i++ {
		var fd int
		switch rapid.IntRange(0, 5).Draw(t, "fdk") {
		case 0, 1, 2:
			fd = hot + rapid.IntRange(0, 1).Draw(t, "near")
		case 3, 4:
			fd = rapid.IntRange(0, 10).Draw(t, "fd")
		default:
			fd = rapid.IntRange(11, 40).Draw(t, "deep")
		}
		tag := rapid.OneOf(rapid.Uint16Range(0, 7), rapid.Uint16()).Draw(t, "tag")
		for used[[2]int{fd, int(tag)}] {
			tag++
		}
		used[[2]int{fd, int(tag)}] = true
		st := rapid.SampledFrom([]string{stConnected, stConnected, stConnected, stConnected, stConnected, stConnected, stGone, stKnown, stStranger}).Draw(t, "state")
		c.Peers = append(c.Peers, peerSpec{FD: fd, Tag: tag, State: st,
			Out:   rapid.Bool().Draw(t, "out"),
			Reach: rapid.SampledFrom([]int{0, 1, 1, 1, 1, 2, 3}).Draw(t, "reach")})
	}
	// boundary addresses as the node's own address or as a peer (all-zero / all-ones overlays are legal)
	c.Special = rapid.SampledFrom([]int{0, 0, 0, 0, 1, 2, 2, 3, 4}).Draw(t, "special")
	if (c.Special == 2 || c.Special == 4) && !used[[2]int{0, 0}] {
		c.Peers = append(c.Peers, peerSpec{FD: 0, Tag: 0, State: stConnected, Out: rapid.Bool().Draw(t, "zout"), Reach: 1})
	}
	nq := rapid.IntRange(1, 6).Draw(t, "nq")
	for j := 0; j < nq; j++ {
		var q query
		q.Status = rapid.SampledFrom([]int{-1, -1, -1, 0, 1, 1, 2}).Draw(t, "status")
		q.TargetKind = rapid.SampledFrom([]int{0, 0, 1, 1, 1, 2}).Draw(t, "tk")
		q.TargetIdx = rapid.IntRange(0, 15).Draw(t, "ti")
		if q.TargetKind == 2 {
			q.Rand = rapid.SliceOfN(rapid.Byte(), 32, 32).Draw(t, "rand")
		} else {
			nf := rapid.SampledFrom([]int{0, 1, 1, 2, 3}).Draw(t, "nflip")
			for f := 0; f < nf; f++ {
				q.Flip = append(q.Flip, rapid.OneOf(rapid.IntRange(0, 24), rapid.IntRange(0, 255)).Draw(t, "flip"))
			}
		}
		ns := rapid.SampledFrom([]int{0, 0, 1, 1, 2, 3, 5}).Draw(t, "nskip")
		for s := 0; s < ns; s++ {
			q.Skip = append(q.Skip, rapid.IntRange(0, 15).Draw(t, "skip"))
		}
		q.Reachable = rapid.IntRange(0, 2).Draw(t, "fr") == 0
		q.IncludeSelf = rapid.Bool().Draw(t, "self")
		q.Limit = rapid.SampledFrom([]int{-1, 0, 1, 2, 3, 4, 6, 20}).Draw(t, "limit")
		c.Queries = append(c.Queries, q)
	}
	return c
}

func record(r *evid.Rec, c kase, inf info) {
	cls := []string{}
	if c.Func {
		cls = append(cls, "filter=ReachabilityFunc")
	} else {
		cls = append(cls, "filter=metrics")
	}
	switch {
	case inf.maxEligible == 0:
		cls = append(cls, "eligible-0")
	case inf.maxEligible <= 2:
		cls = append(cls, "eligible-1..2")
	case inf.maxEligible <= 6:
		cls = append(cls, "eligible-3..6")
	default:
		cls = append(cls, "eligible-7+")
	}
	r.Case(evid.Hash64(c), inf.nontrivial, cls...)
	r.ClassN("queries", inf.queries)
	r.ClassN("q:peer-returned", inf.found)
	r.ClassN("q:want-self", inf.wantSelf)
	r.ClassN("q:not-found", inf.notFound)
	r.ClassN("q:self-eligible-no-peer-eligible(either error accepted)", inf.vacuous)
	r.ClassN("q:skip-list-non-empty", inf.skipUsed)
	r.ClassN("q:filter-reachable", inf.filterUsed)
	r.ClassN("q:self-eligible", inf.selfEligible)
	r.ClassN("q:target-is-a-peer-address", inf.targetIsPeer)
	r.ClassN("q:two-nearest-in-same-bin", inf.sameBinDecision)
	r.ClassN("peers-excluded-by-skip", inf.skipExcludes)
	r.ClassN("peers-excluded-by-reachable-filter", inf.filterExcludes)
	r.ClassN("multi:calls", inf.multi)
	r.ClassN("multi:limit-below-eligible", inf.multiTruncated)
	r.ClassN("multi:limit-covers-all", inf.multiFull)
	r.Sample(c)
}

func fixedCases() []kase {
	// four connected peers in one bin plus one each side; target = each peer, base, and
	// in between; every combination of includeSelf / node status / filter
	var out []kase
	peers := []peerSpec{
		{FD: 2, Tag: 0, State: stConnected, Reach: 1}, {FD: 2, Tag: 1, State: stConnected, Reach: 2},
		{FD: 2, Tag: 0x8000, State: stConnected, Out: true, Reach: 1}, {FD: 2, Tag: 0xffff, State: stConnected, Reach: 0},
		{FD: 1, Tag: 0, State: stConnected, Reach: 1}, {FD: 3, Tag: 0, State: stConnected, Out: true, Reach: 3},
		{FD: 2, Tag: 2, State: stGone, Reach: 1}, {FD: 4, Tag: 0, State: stKnown, Reach: 1}, {FD: 5, Tag: 0, State: stStranger},
	}
	for _, fn := range []bool{false, true} {
		for st := 0; st <= 2; st++ {
			c := kase{Seed: [4]byte{3, 1, 4, byte(st)}, Func: fn, Peers: peers}
			for tk := 0; tk <= 1; tk++ {
				for ti := 0; ti < len(peers); ti++ {
					for _, self := range []bool{false, true} {
						for _, fr := range []bool{false, true} {
							c.Queries = append(c.Queries, query{Status: st, TargetKind: tk, TargetIdx: ti, Flip: []int{40 + ti}, Skip: []int{ti, 8}, Reachable: fr, IncludeSelf: self, Limit: ti % 4})
							c.Queries = append(c.Queries, query{Status: -1, TargetKind: tk, TargetIdx: ti, Reachable: fr, IncludeSelf: self, Limit: 20})
						}
					}
					if tk == 0 {
						break
					}
				}
			}
			out = append(out, c)
		}
	}
	// nobody connected; only self
	out = append(out, kase{Seed: [4]byte{1, 1, 1, 1}, Queries: []query{{Status: 1, IncludeSelf: true, Limit: 3}, {Status: -1, IncludeSelf: false, Limit: 0}}})
	// everybody skipped
	out = append(out, kase{Seed: [4]byte{1, 1, 1, 2}, Peers: peers[:3], Queries: []query{{Status: 1, IncludeSelf: true, Skip: []int{0, 1, 2}, Limit: 3}, {Status: 2, IncludeSelf: true, Skip: []int{0, 1, 2}, Limit: 3}}})
	return out
}

func TestC23_Closest(t *testing.T) {
	r := evid.Get(id)
	evid.Finish(t, r)
	t.Cleanup(kadx.Drain)
	r.SetRule("real kademlia.Kad (never started; own address derived from a seed, or all-zero / all-ones, or chosen so that one connected peer is the all-zero / all-ones address): 0..14 peers (most in two adjacent 'hot' bins so that the decision falls inside a bin, some anywhere in bins 0..10, some up to first-difference bit 40) in state connected(inbound|outbound)/connected-then-disconnected/known-only/stranger, reachability never reported/public/private/public-then-private through the Kad's own metrics filter or Options.ReachabilityFunc; 1..6 queries each with optional UpdateReachability(unknown|public|private), target = base or a peer address with 0..3 flipped bits or 32 random bytes, skip list of 0..5 peers of any state (with repeats), Filter.Reachable, includeSelf, limit; oracle = eligible connected peers sorted by math/big XOR distance. non-trivial = some query has >= 3 eligible peers or a non-empty skip list; distinct by hash of the whole case")

	if os.Getenv("VERIF_SKIP_FIXED") == "" {
		for _, c := range fixedCases() {
			sig, err, inf := run(c)
			if err != nil {
				t.Fatalf("%s", evid.Violation(id, sig, fmt.Sprintf("%v case=%+v", err, c)))
			}
			record(r, c, inf)
		}
	}
	evid.Checks(1000)
	rapid.Check(t, func(t *rapid.T) {
		c := genCase(t)
		sig, err, inf := run(c)
		if err != nil {
			t.Fatalf("%s", evid.Violation(id, sig, fmt.Sprintf("%v case=%+v", err, c)))
		}
		record(r, c, inf)
	})
}
